//! Exact dyadic rationals m / 2^s (BigInt mantissa): every finite float and
//! every integer is one, and they are closed under + - *, which is all the
//! quantile oracle needs.  Independent of the crate's own float handling.
use num_bigint::BigInt;
use num_traits::{One, Signed, Zero};
use std::cmp::Ordering;

#[derive(Clone, Debug)]
pub struct Dy {
    pub m: BigInt,
    pub s: u32,
}

impl Dy {
    pub fn int(i: i128) -> Dy {
        Dy { m: BigInt::from(i), s: 0 }
    }
    pub fn from_f64(x: f64) -> Dy {
        assert!(x.is_finite());
        let bits = x.to_bits();
        let neg = bits >> 63 == 1;
        let e = ((bits >> 52) & 0x7ff) as i32;
        let frac = bits & ((1u64 << 52) - 1);
        let (mant, exp) = if e == 0 { (frac, -1074) } else { (frac | (1u64 << 52), e - 1075) };
        let mut m = BigInt::from(mant);
        if neg {
            m = -m;
        }
        if exp >= 0 {
            Dy { m: m << (exp as usize), s: 0 }
        } else {
            Dy { m, s: (-exp) as u32 }.norm()
        }
    }
    pub fn pow2(e: i32) -> Dy {
        if e >= 0 {
            Dy { m: BigInt::one() << (e as usize), s: 0 }
        } else {
            Dy { m: BigInt::one(), s: (-e) as u32 }
        }
    }
    fn norm(mut self) -> Dy {
        if self.m.is_zero() {
            self.s = 0;
            return self;
        }
        let tz = self.m.trailing_zeros().unwrap_or(0) as u32;
        let k = tz.min(self.s);
        if k > 0 {
            self.m = self.m >> (k as usize);
            self.s -= k;
        }
        self
    }
    fn align(a: &Dy, b: &Dy) -> (BigInt, BigInt, u32) {
        let s = a.s.max(b.s);
        (a.m.clone() << ((s - a.s) as usize), b.m.clone() << ((s - b.s) as usize), s)
    }
    pub fn add(&self, o: &Dy) -> Dy {
        let (a, b, s) = Dy::align(self, o);
        Dy { m: a + b, s }.norm()
    }
    pub fn sub(&self, o: &Dy) -> Dy {
        let (a, b, s) = Dy::align(self, o);
        Dy { m: a - b, s }.norm()
    }
    pub fn mul(&self, o: &Dy) -> Dy {
        Dy { m: &self.m * &o.m, s: self.s + o.s }.norm()
    }
    pub fn half(&self) -> Dy {
        Dy { m: self.m.clone(), s: self.s + 1 }.norm()
    }
    pub fn abs(&self) -> Dy {
        Dy { m: self.m.abs(), s: self.s }
    }
    pub fn neg(&self) -> Dy {
        Dy { m: -self.m.clone(), s: self.s }
    }
    pub fn cmp(&self, o: &Dy) -> Ordering {
        let (a, b, _) = Dy::align(self, o);
        a.cmp(&b)
    }
    pub fn le(&self, o: &Dy) -> bool {
        self.cmp(o) != Ordering::Greater
    }
    pub fn lt(&self, o: &Dy) -> bool {
        self.cmp(o) == Ordering::Less
    }
    pub fn eq(&self, o: &Dy) -> bool {
        self.cmp(o) == Ordering::Equal
    }
    pub fn max(&self, o: &Dy) -> Dy {
        if self.lt(o) {
            o.clone()
        } else {
            self.clone()
        }
    }
    pub fn is_int(&self) -> bool {
        self.clone().norm().s == 0
    }
    /// floor as BigInt
    pub fn floor(&self) -> BigInt {
        // arithmetic shift of BigInt rounds toward -inf
        &self.m >> (self.s as usize)
    }
    pub fn ceil(&self) -> BigInt {
        let f = self.floor();
        if self.is_int() {
            f
        } else {
            f + 1
        }
    }
    pub fn fract(&self) -> Dy {
        self.sub(&Dy { m: self.floor(), s: 0 })
    }
    pub fn to_f64_lossy(&self) -> f64 {
        // good enough for reports only
        let bits = self.m.bits() as i64;
        if bits == 0 {
            return 0.0;
        }
        let shift = (bits - 60).max(0);
        let top: BigInt = &self.m >> (shift as usize);
        let t = top.to_string().parse::<f64>().unwrap_or(f64::NAN);
        t * 2f64.powi((shift - self.s as i64) as i32)
    }
    pub fn show(&self) -> String {
        if self.s == 0 {
            format!("{}", self.m)
        } else if self.s < 64 {
            format!("{}/2^{}", self.m, self.s)
        } else {
            format!("~{:e}", self.to_f64_lossy())
        }
    }
}
