//! Driver `layout`: C20  results do not depend on memory layout, strides or ownership.
//! Differential monitor: the canonical representation (owned, C order) against zoo variants
//! (stepped / reversed / permuted views at an offset in a parent buffer, owned-sliced arrays,
//! ArcArray with a second handle, CowArray borrowed / owned, static vs dynamic dimensionality).
//! Order-based and integer results must be bit-identical; float sums are logged as (canonical,
//! variant) pairs and judged offline against the exact value with the bounds of DESIGN.md section 4.
#![allow(clippy::all, unused_mut, unused_variables)]
use ndarray::prelude::*;
use ndarray::{CowArray, IxDyn};
use ndarray_stats::histogram::strategies::{Auto, Sqrt};
use ndarray_stats::histogram::{Bins, Edges, Grid, GridBuilder};
use ndarray_stats::interpolate::{Higher, Linear, Lower, Midpoint, Nearest};
use ndarray_stats::{CorrelationExt, DeviationExt, EntropyExt, HistogramExt, MaybeNan, MaybeNanExt, Quantile1dExt, QuantileExt, Sort1dExt, SummaryStatisticsExt};
use noisy_float::types::{n64, N64};
use std::fmt::Write as _;
use vharness::*;

const KINDS: [&str; 7] = ["view_mut", "owned_sliced", "arc_shared", "cow_borrowed", "cow_owned", "static_dim_view", "owned_sliced_into_dyn"];

/// Evaluates `$body` with `$a` bound to the requested representation of (shape, data, layout).
/// `$body` must work for every array type (it is expanded once per representation).
/// Returns Err(description) if an ownership side condition is violated (second ArcArray handle or
/// the lender of a borrowed CowArray changed).
macro_rules! on_variant {
    ($kind:expr, $shape:expr, $data:expr, $lay:expr, |$a:ident| $body:expr) => {{
        let shape: &[usize] = $shape;
        let nd = shape.len();
        match $kind % 7 {
            0 => {
                let mut e = Embedded::new(shape, $data, $lay.clone());
                let mut $a = e.view_mut();
                Ok($body)
            }
            1 | 6 => {
                let mut $a = Embedded::new(shape, $data, $lay.clone()).into_owned_sliced();
                Ok($body)
            }
            2 => {
                let o = Embedded::new(shape, $data, $lay.clone()).into_owned_sliced().into_shared();
                let keep = o.clone();
                let mut $a = o;
                let r = $body;
                let want = Array::from_shape_vec(IxDyn(shape), $data.to_vec()).unwrap();
                if keep.iter().zip(want.iter()).all(|(x, y)| x.bits() == y.bits()) {
                    Ok(r)
                } else {
                    Err("the second ArcArray handle changed".to_string())
                }
            }
            3 => {
                let e = Embedded::new(shape, $data, $lay.clone());
                let before = e.parent_bits();
                let r = {
                    let mut $a = CowArray::from(e.view());
                    $body
                };
                if e.parent_bits() == before {
                    Ok(r)
                } else {
                    Err("the array a CowArray borrowed from changed".to_string())
                }
            }
            4 => {
                let mut $a = CowArray::from(Embedded::new(shape, $data, $lay.clone()).into_owned_sliced());
                Ok($body)
            }
            _ => {
                let mut e = Embedded::new(shape, $data, $lay.clone());
                if nd == 1 {
                    let mut $a = e.view_mut().into_dimensionality::<Ix1>().unwrap();
                    Ok($body)
                } else if nd == 2 {
                    let mut $a = e.view_mut().into_dimensionality::<Ix2>().unwrap();
                    Ok($body)
                } else if nd == 3 {
                    let mut $a = e.view_mut().into_dimensionality::<Ix3>().unwrap();
                    Ok($body)
                } else {
                    let mut $a = e.view_mut();
                    Ok($body)
                }
            }
        }
    }};
}

fn canon<T: Clone>(shape: &[usize], data: &[T]) -> ArrayD<T> {
    Array::from_shape_vec(IxDyn(shape), data.to_vec()).unwrap()
}

fn bits_of<T: Elem, D: Dimension>(a: &Array<T, D>) -> (Vec<usize>, Vec<(u8, u128)>) {
    (a.shape().to_vec(), a.iter().map(|x| x.bits()).collect())
}

type Fp = Result<String, String>; // fingerprint of a result (Ok) or of a failure (Err) - both must agree

fn fp_arr<T: Elem, D: Dimension, E: std::fmt::Debug>(r: Result<Result<Array<T, D>, E>, String>) -> String {
    match r {
        Ok(Ok(a)) => format!("{:?}", bits_of(&a)),
        Ok(Err(e)) => format!("Err({:?})", e),
        Err(m) => format!("panic({})", m),
    }
}
fn fp_val<T: std::fmt::Debug, E: std::fmt::Debug>(r: Result<Result<T, E>, String>) -> String {
    match r {
        Ok(Ok(a)) => format!("{:?}", a),
        Ok(Err(e)) => format!("Err({:?})", e),
        Err(m) => format!("panic({})", m),
    }
}

fn pol(rng: &mut Rng) -> Pivots {
    match rng.below(4) {
        0 => Pivots::First,
        1 => Pivots::Last,
        2 => Pivots::Alternate,
        _ => Pivots::Seeded(rng.next()),
    }
}

fn report(acc: &mut Acc, op: &str, ty: &str, shape: &[usize], lay: &Layout, kind: usize, canon_fp: &str, var_fp: &str) {
    acc.violation(
        "representation_differential",
        None,
        J::obj(vec![
            ("op", J::s(op)),
            ("elem", J::s(ty)),
            ("shape", J::us(shape)),
            ("layout", lay.to_json()),
            ("representation", J::s(KINDS[kind % 7])),
            ("canonical_result", J::s(canon_fp.chars().take(600).collect::<String>())),
            ("variant_result", J::s(var_fp.chars().take(600).collect::<String>())),
        ]),
    );
}

macro_rules! diff_op {
    ($acc:expr, $rng:expr, $op:expr, $ty:expr, $shape:expr, $data:expr, $lay:expr, $kind:expr, |$a:ident| $body:expr) => {{
        $acc.eval();
        set_pivots(pol($rng));
        let cf: String = {
            let mut $a = canon($shape, $data);
            $body
        };
        set_pivots(pol($rng));
        let vf: Result<String, String> = on_variant!($kind, $shape, $data, $lay, |$a| $body);
        $acc.count(&format!("op_{}", $op));
        match vf {
            Ok(v) if v == cf => true,
            Ok(v) => {
                report($acc, $op, $ty, $shape, $lay, $kind, &cf, &v);
                false
            }
            Err(m) => {
                report($acc, $op, $ty, $shape, $lay, $kind, &cf, &m);
                false
            }
        }
    }};
}

// ---------------------------------------------------------------------------
// order-based routines
// ---------------------------------------------------------------------------
trait OrdEl: Elem + Ord + Copy + std::fmt::Debug + num_traits::NumOps + num_traits::FromPrimitive + num_traits::ToPrimitive {
    fn small(i: i64) -> Self;
}
impl OrdEl for i32 {
    fn small(i: i64) -> Self {
        i as i32
    }
}
impl OrdEl for i64 {
    fn small(i: i64) -> Self {
        i * 1_000_003
    }
}
impl OrdEl for u8 {
    fn small(i: i64) -> Self {
        (i + 40).clamp(0, 200) as u8
    }
}
impl OrdEl for N64 {
    fn small(i: i64) -> Self {
        n64(i as f64 * 0.37)
    }
}

fn gen_shape(rng: &mut Rng, maxnd: usize) -> (Vec<usize>, usize) {
    let nd = 1 + rng.below(maxnd);
    let axis = rng.below(nd);
    let mut s: Vec<usize> = (0..nd).map(|_| 1 + rng.below(4)).collect();
    s[axis] = 1 + rng.below(9);
    (s, axis)
}

fn ord_case<T: OrdEl>(rng: &mut Rng, acc: &mut Acc) {
    let (shape, axis) = gen_shape(rng, 4);
    let nd = shape.len();
    let n: usize = shape.iter().product();
    let spread = *rng.pick(&[2i64, 5, 30]);
    let data: Vec<T> = (0..n).map(|_| T::small(rng.range(-spread, spread))).collect();
    let lay = Layout::random(nd, rng);
    let kind = rng.below(7);
    let ty = T::NAME;
    acc.count(&format!("representation_{}", KINDS[kind]));
    acc.count(&format!("layout_{}", lay.class()));
    acc.count(&format!("ndim_{}", nd));
    let nq = rng.below(4);
    let qs: Array1<N64> = (0..nq).map(|_| n64(*rng.pick(&[0.0, 1.0, 0.5, 0.25, 0.33, 0.9]))).collect();
    let q = n64(rng.unit());
    let st = rng.below(5);
    let mut ok = true;
    ok &= diff_op!(acc, rng, "quantiles_axis_mut", ty, &shape, &data, &lay, kind, |a| match st {
        0 => fp_arr(catch(|| a.quantiles_axis_mut(Axis(axis), &qs, &Lower))),
        1 => fp_arr(catch(|| a.quantiles_axis_mut(Axis(axis), &qs, &Higher))),
        2 => fp_arr(catch(|| a.quantiles_axis_mut(Axis(axis), &qs, &Nearest))),
        3 => fp_arr(catch(|| a.quantiles_axis_mut(Axis(axis), &qs, &Midpoint))),
        _ => fp_arr(catch(|| a.quantiles_axis_mut(Axis(axis), &qs, &Linear))),
    });
    ok &= diff_op!(acc, rng, "quantile_axis_mut", ty, &shape, &data, &lay, kind, |a| match st {
        0 => fp_arr(catch(|| a.quantile_axis_mut(Axis(axis), q, &Lower))),
        1 => fp_arr(catch(|| a.quantile_axis_mut(Axis(axis), q, &Higher))),
        2 => fp_arr(catch(|| a.quantile_axis_mut(Axis(axis), q, &Nearest))),
        3 => fp_arr(catch(|| a.quantile_axis_mut(Axis(axis), q, &Midpoint))),
        _ => fp_arr(catch(|| a.quantile_axis_mut(Axis(axis), q, &Linear))),
    });
    ok &= diff_op!(acc, rng, "min", ty, &shape, &data, &lay, kind, |a| fp_val(catch(|| a.min().map(|x| x.bits()))));
    ok &= diff_op!(acc, rng, "max", ty, &shape, &data, &lay, kind, |a| fp_val(catch(|| a.max().map(|x| x.bits()))));
    // index-returning: the element designated by the returned logical index must equal the canonical extremum
    let st_ = row_major_strides(&shape);
    let at = |idx: Vec<usize>| -> String {
        if idx.len() != shape.len() || idx.iter().zip(&shape).any(|(i, s)| i >= s) {
            return format!("index {:?} out of bounds", idx);
        }
        format!("{:?}", data[idx.iter().zip(&st_).map(|(i, s)| i * s).sum::<usize>()].bits())
    };
    ok &= diff_op!(acc, rng, "argmin", ty, &shape, &data, &lay, kind, |a| match catch(|| a.argmin()) {
        Ok(Ok(p)) => at(ndarray::IntoDimension::into_dimension(p).slice().to_vec()),
        other => format!("{:?}", other.map(|r| r.map(|_| ()))),
    });
    ok &= diff_op!(acc, rng, "argmax", ty, &shape, &data, &lay, kind, |a| match catch(|| a.argmax()) {
        Ok(Ok(p)) => at(ndarray::IntoDimension::into_dimension(p).slice().to_vec()),
        other => format!("{:?}", other.map(|r| r.map(|_| ()))),
    });
    if ok && n >= 2 {
        acc.nontrivial(h64(&(ty, &shape, axis, &lay, kind, data.iter().map(|x| x.bits()).collect::<Vec<_>>())));
    }
    acc.sample(|| J::obj(vec![("family", J::s("quantiles / min / max / arg*")), ("elem", J::s(ty)), ("shape", J::us(&shape)), ("layout", lay.to_json()), ("representation", J::s(KINDS[kind]))]));
}

/// 1-D only routines: Sort1dExt, quantile_mut, quantiles_mut
fn ord1_case<T: OrdEl>(rng: &mut Rng, acc: &mut Acc) {
    let n = 1 + rng.below(24);
    let shape = vec![n];
    let spread = *rng.pick(&[2i64, 5, 30]);
    let data: Vec<T> = (0..n).map(|_| T::small(rng.range(-spread, spread))).collect();
    let lay = Layout::random(1, rng);
    let ty = T::NAME;
    let i = rng.below(n);
    let req: Array1<usize> = (0..rng.below(6)).map(|_| rng.below(n)).collect();
    let q = n64(rng.unit());
    let qs: Array1<N64> = (0..rng.below(4)).map(|_| n64(rng.unit())).collect();
    // representations of a 1-D array: view_mut (strided), owned sliced, ArcArray, CowArray
    for kind in [0usize, 1, 2, 3, 4] {
        acc.count(&format!("representation_{}", KINDS[kind]));
        macro_rules! d1 {
            ($op:expr, |$a:ident| $body:expr) => {{
                acc.eval();
                set_pivots(pol(rng));
                let cf: String = {
                    let mut $a = Array1::from(data.clone());
                    $body
                };
                set_pivots(pol(rng));
                let vf: Result<String, String> = match kind {
                    0 => {
                        let mut e = Embedded::new(&shape, &data, lay.clone());
                        let mut $a = e.view_mut().into_dimensionality::<Ix1>().unwrap();
                        Ok($body)
                    }
                    1 => {
                        let mut $a = Embedded::new(&shape, &data, lay.clone()).into_owned_sliced().into_dimensionality::<Ix1>().unwrap();
                        Ok($body)
                    }
                    2 => {
                        let o = Embedded::new(&shape, &data, lay.clone()).into_owned_sliced().into_dimensionality::<Ix1>().unwrap().into_shared();
                        let keep = o.clone();
                        let mut $a = o;
                        let r = $body;
                        if keep.iter().zip(data.iter()).all(|(x, y)| x.bits() == y.bits()) {
                            Ok(r)
                        } else {
                            Err("the second ArcArray handle changed".into())
                        }
                    }
                    3 => {
                        let e = Embedded::new(&shape, &data, lay.clone());
                        let before = e.parent_bits();
                        let r = {
                            let mut $a = CowArray::from(e.view().into_dimensionality::<Ix1>().unwrap());
                            $body
                        };
                        if e.parent_bits() == before {
                            Ok(r)
                        } else {
                            Err("the array a CowArray borrowed from changed".into())
                        }
                    }
                    _ => {
                        let mut $a = CowArray::from(Embedded::new(&shape, &data, lay.clone()).into_owned_sliced().into_dimensionality::<Ix1>().unwrap());
                        Ok($body)
                    }
                };
                acc.count(&format!("op_{}", $op));
                match vf {
                    Ok(v) if v == cf => {}
                    Ok(v) => report(acc, $op, ty, &shape, &lay, kind, &cf, &v),
                    Err(m) => report(acc, $op, ty, &shape, &lay, kind, &cf, &m),
                }
            }};
        }
        d1!("get_from_sorted_mut", |a| fp_val::<_, ()>(catch(|| Ok(a.get_from_sorted_mut(i).bits()))));
        d1!("get_many_from_sorted_mut", |a| fp_val::<_, ()>(catch(|| Ok(a.get_many_from_sorted_mut(&req).iter().map(|(k, v)| (*k, v.bits())).collect::<Vec<_>>()))));
        d1!("partition_mut", |a| fp_val::<_, ()>(catch(|| Ok(a.partition_mut(i)))));
        d1!("quantile_mut", |a| fp_val(catch(|| a.quantile_mut(q, &Nearest).map(|x| x.bits()))));
        d1!("quantiles_mut", |a| fp_arr(catch(|| a.quantiles_mut(&qs, &Higher))));
    }
    if n >= 2 {
        acc.nontrivial(h64(&(ty, "1d", &lay, data.iter().map(|x| x.bits()).collect::<Vec<_>>(), i)));
    }
}

// ---------------------------------------------------------------------------
// NaN-skipping family
// ---------------------------------------------------------------------------
trait NanEl: Elem + MaybeNan + Copy + std::fmt::Debug
where
    Self::NotNan: Ord + Clone + num_traits::FromPrimitive + num_traits::ToPrimitive + num_traits::NumOps,
{
    fn mk(i: i64) -> Self;
    fn missing() -> Self;
    fn nnbits(x: &Self::NotNan) -> (u8, u128) {
        let p = x as *const Self::NotNan as *const Self;
        unsafe { (*p).bits() }
    }
}
impl NanEl for f64 {
    fn mk(i: i64) -> Self {
        i as f64 * 0.5
    }
    fn missing() -> Self {
        f64::NAN
    }
}
impl NanEl for Option<i32> {
    fn mk(i: i64) -> Self {
        Some(i as i32)
    }
    fn missing() -> Self {
        None
    }
}

fn nan_case<T: NanEl>(rng: &mut Rng, acc: &mut Acc)
where
    T::NotNan: Ord + Clone + num_traits::FromPrimitive + num_traits::ToPrimitive + num_traits::NumOps,
{
    let (shape, axis) = gen_shape(rng, 3);
    let nd = shape.len();
    let n: usize = shape.iter().product();
    let pm = *rng.pick(&[0.0, 0.2, 0.6, 1.0]);
    let data: Vec<T> = (0..n).map(|_| if rng.chance(pm) { T::missing() } else { T::mk(rng.range(-6, 6)) }).collect();
    let lay = Layout::random(nd, rng);
    let kind = rng.below(7);
    let ty = T::NAME;
    acc.count(&format!("representation_{}", KINDS[kind]));
    let q = n64(*rng.pick(&[0.0, 1.0, 0.5, 0.3, 0.77]));
    let st_ = row_major_strides(&shape);
    let at = |idx: Vec<usize>| -> String {
        if idx.len() != shape.len() || idx.iter().zip(&shape).any(|(i, s)| i >= s) {
            return format!("index {:?} out of bounds", idx);
        }
        format!("{:?}", data[idx.iter().zip(&st_).map(|(i, s)| i * s).sum::<usize>()].bits())
    };
    let mut ok = true;
    ok &= diff_op!(acc, rng, "min_skipnan", ty, &shape, &data, &lay, kind, |a| fp_val::<_, ()>(catch(|| Ok(a.min_skipnan().bits()))));
    ok &= diff_op!(acc, rng, "max_skipnan", ty, &shape, &data, &lay, kind, |a| fp_val::<_, ()>(catch(|| Ok(a.max_skipnan().bits()))));
    ok &= diff_op!(acc, rng, "argmin_skipnan", ty, &shape, &data, &lay, kind, |a| match catch(|| a.argmin_skipnan()) {
        Ok(Ok(p)) => at(ndarray::IntoDimension::into_dimension(p).slice().to_vec()),
        other => format!("{:?}", other.map(|r| r.map(|_| ()))),
    });
    ok &= diff_op!(acc, rng, "argmax_skipnan", ty, &shape, &data, &lay, kind, |a| match catch(|| a.argmax_skipnan()) {
        Ok(Ok(p)) => at(ndarray::IntoDimension::into_dimension(p).slice().to_vec()),
        other => format!("{:?}", other.map(|r| r.map(|_| ()))),
    });
    ok &= diff_op!(acc, rng, "fold_skipnan", ty, &shape, &data, &lay, kind, |a| {
        let mut v = a.fold_skipnan(Vec::new(), |mut acc2, x| {
            acc2.push(T::nnbits(x));
            acc2
        });
        v.sort();
        format!("{:?}", v)
    });
    ok &= diff_op!(acc, rng, "indexed_fold_skipnan", ty, &shape, &data, &lay, kind, |a| {
        let mut v = a.indexed_fold_skipnan(Vec::new(), |mut acc2, (idx, x)| {
            acc2.push((ndarray::IntoDimension::into_dimension(idx).slice().to_vec(), T::nnbits(x)));
            acc2
        });
        v.sort();
        format!("{:?}", v)
    });
    ok &= diff_op!(acc, rng, "fold_axis_skipnan", ty, &shape, &data, &lay, kind, |a| {
        // fold_axis visits each lane in logical order along the axis: an ORDER-SENSITIVE fold must not depend on layout
        let r = a.fold_axis_skipnan(Axis(axis), (0usize, 0u128), |s, x| (s.0 + 1, s.1.wrapping_mul(31).wrapping_add(T::nnbits(x).1)));
        format!("{:?} {:?}", r.shape().to_vec(), r.iter().cloned().collect::<Vec<_>>())
    });
    ok &= diff_op!(acc, rng, "quantile_axis_skipnan_mut", ty, &shape, &data, &lay, kind, |a| fp_arr(catch(|| a.quantile_axis_skipnan_mut(Axis(axis), q, &Lower))));
    ok &= diff_op!(acc, rng, "map_axis_skipnan_mut", ty, &shape, &data, &lay, kind, |a| {
        let r = a.map_axis_skipnan_mut(Axis(axis), |lane| {
            let mut v: Vec<(u8, u128)> = lane.iter().map(|x| T::nnbits(x)).collect();
            v.sort();
            v
        });
        format!("{:?} {:?}", r.shape().to_vec(), r.iter().cloned().collect::<Vec<_>>())
    });
    if ok && n >= 2 {
        acc.nontrivial(h64(&(ty, "nan", &shape, axis, &lay, kind, data.iter().map(|x| x.bits()).collect::<Vec<_>>())));
    }
}

// ---------------------------------------------------------------------------
// integer summary statistics / deviations (exact equality)
// ---------------------------------------------------------------------------
fn int_case(rng: &mut Rng, acc: &mut Acc) {
    let (shape, axis) = gen_shape(rng, 4);
    let nd = shape.len();
    let n: usize = shape.iter().product();
    let a: Vec<i64> = (0..n).map(|_| rng.range(-1000, 1000)).collect();
    let b: Vec<i64> = (0..n).map(|i| if rng.chance(0.3) { a[i] } else { rng.range(-1000, 1000) }).collect();
    let w1: Vec<i64> = (0..shape[axis]).map(|_| rng.range(0, 9)).collect();
    let (la, lb) = (Layout::random(nd, rng), Layout::random(nd, rng));
    let (ka, kb) = (rng.below(7), rng.below(7));
    let ty = "i64";
    acc.count(&format!("representation_{}", KINDS[ka]));
    // single-operand
    diff_op!(acc, rng, "mean", ty, &shape, &a, &la, ka, |x| fp_val(catch(|| SummaryStatisticsExt::mean(&x))));
    // two operands: vary both independently. The variant of `b` is built first, then `a`'s.
    macro_rules! two {
        ($op:expr, |$x:ident, $y:ident| $body:expr) => {{
            acc.eval();
            let cf: String = {
                let $x = canon(&shape, &a);
                let $y = canon(&shape, &b);
                $body
            };
            let vf: Result<Result<String, String>, String> = on_variant!(kb, &shape, &b, &lb, |yv| {
                let $y = yv.view().into_dyn();
                let inner: Result<String, String> = on_variant!(ka, &shape, &a, &la, |xv| {
                    let $x = xv.view().into_dyn();
                    $body
                });
                inner
            });
            acc.count(&format!("op_{}", $op));
            match vf {
                Ok(Ok(v)) if v == cf => {}
                Ok(Ok(v)) => report(acc, $op, ty, &shape, &la, ka, &cf, &format!("{} (second operand: {} {})", v, KINDS[kb], lb.class())),
                Ok(Err(m)) | Err(m) => report(acc, $op, ty, &shape, &la, ka, &cf, &m),
            }
        }};
    }
    two!("count_eq", |x, y| fp_val(catch(|| x.count_eq(&y))));
    two!("count_neq", |x, y| fp_val(catch(|| x.count_neq(&y))));
    two!("sq_l2_dist", |x, y| fp_val(catch(|| x.sq_l2_dist(&y))));
    two!("l1_dist", |x, y| fp_val(catch(|| x.l1_dist(&y))));
    two!("linf_dist", |x, y| fp_val(catch(|| x.linf_dist(&y))));
    two!("l2_dist", |x, y| fp_val(catch(|| x.l2_dist(&y).map(|v| v.to_bits()))));
    two!("mean_abs_err", |x, y| fp_val(catch(|| x.mean_abs_err(&y).map(|v| v.to_bits()))));
    two!("mean_sq_err", |x, y| fp_val(catch(|| x.mean_sq_err(&y).map(|v| v.to_bits()))));
    two!("root_mean_sq_err", |x, y| fp_val(catch(|| x.root_mean_sq_err(&y).map(|v| v.to_bits()))));
    two!("peak_signal_to_noise_ratio", |x, y| fp_val(catch(|| x.peak_signal_to_noise_ratio(&y, 255).map(|v| v.to_bits()))));
    // weighted routines need the same storage type for both operands: use views of both variants
    two!("weighted_sum", |x, y| fp_val(catch(|| x.view().weighted_sum(&y.view()))));
    two!("weighted_mean", |x, y| fp_val(catch(|| if y.sum() == 0 { Ok(0) } else { x.view().weighted_mean(&y.view()) })));
    {
        let lw = Layout::random(1, rng);
        let ew = Embedded::new(&[shape[axis]], &w1, lw.clone());
        let wv = ew.view().into_dimensionality::<Ix1>().unwrap();
        let wc = Array1::from(w1.clone());
        acc.eval();
        let cf = {
            let x = canon(&shape, &a);
            fp_arr(catch(|| x.view().weighted_sum_axis(Axis(axis), &wc.view())))
        };
        let vf: Result<String, String> = on_variant!(ka, &shape, &a, &la, |x| fp_arr(catch(|| x.view().weighted_sum_axis(Axis(axis), &wv))));
        acc.count("op_weighted_sum_axis");
        match vf {
            Ok(v) if v == cf => {}
            Ok(v) => report(acc, "weighted_sum_axis", ty, &shape, &la, ka, &cf, &v),
            Err(m) => report(acc, "weighted_sum_axis", ty, &shape, &la, ka, &cf, &m),
        }
    }
    // both operands are views of ONE buffer (same start or not, different steps, transposes): the results must be
    // those of the logically equal owned copies
    {
        let m = 2 + rng.below(9);
        let parent = Array1::from((0..3 * m + 3).map(|_| rng.range(-50, 50)).collect::<Vec<i64>>());
        let sq = Array2::from_shape_fn((m.min(5), m.min(5)), |_| rng.range(-50, 50));
        let (sx, sy) = (1 + rng.below(3), 1 + rng.below(3));
        let (ox, oy) = (if rng.chance(0.6) { 0 } else { rng.below(3) }, if rng.chance(0.6) { 0 } else { rng.below(3) });
        let (rx, ry) = (rng.chance(0.2), rng.chance(0.2));
        let mk = |o: usize, st: usize, rev: bool| {
            let mut v = parent.slice(ndarray::s![o..o + (m - 1) * st + 1;st as isize]);
            if rev {
                v.invert_axis(Axis(0));
            }
            v
        };
        let (x, y) = (mk(ox, sx, rx), mk(oy, sy, ry));
        let (xo, yo) = (x.to_owned(), y.to_owned());
        let t = sq.t();
        let (so, to) = (sq.to_owned(), Array2::from_shape_vec(t.raw_dim(), t.iter().cloned().collect()).unwrap());
        macro_rules! alias {
            ($op:expr, |$p:ident, $q:ident| $body:expr) => {{
                acc.evals += 2;
                acc.count(&format!("op_{}_aliased", $op));
                let got = { let ($p, $q) = (&x, &y); $body };
                let want = { let ($p, $q) = (&xo, &yo); $body };
                if got != want {
                    acc.violation("layout_differential", None, J::obj(vec![("op", J::s($op)), ("what", J::s(format!("two views of one buffer (offsets {} {}, steps {} {}, reversed {} {}) give {} but their owned copies give {}", ox, oy, sx, sy, rx, ry, got, want))), ("parent", J::s(format!("{:?}", parent.to_vec()))), ("len", J::u(m))]));
                }
                let got = { let ($p, $q) = (&sq, &t); $body };
                let want = { let ($p, $q) = (&so, &to); $body };
                if got != want {
                    acc.violation("layout_differential", None, J::obj(vec![("op", J::s($op)), ("what", J::s(format!("a square matrix and its transposed view give {} but owned copies give {}", got, want))), ("matrix", J::s(format!("{:?}", sq)))]));
                }
            }};
        }
        alias!("count_eq", |p, q| fp_val(catch(|| p.count_eq(q))));
        alias!("count_neq", |p, q| fp_val(catch(|| p.count_neq(q))));
        alias!("sq_l2_dist", |p, q| fp_val(catch(|| p.sq_l2_dist(q))));
        alias!("l1_dist", |p, q| fp_val(catch(|| p.l1_dist(q))));
        alias!("linf_dist", |p, q| fp_val(catch(|| p.linf_dist(q))));
        alias!("l2_dist", |p, q| fp_val(catch(|| p.l2_dist(q).map(|v| v.to_bits()))));
        alias!("mean_abs_err", |p, q| fp_val(catch(|| p.mean_abs_err(q).map(|v| v.to_bits()))));
        alias!("mean_sq_err", |p, q| fp_val(catch(|| p.mean_sq_err(q).map(|v| v.to_bits()))));
        alias!("root_mean_sq_err", |p, q| fp_val(catch(|| p.root_mean_sq_err(q).map(|v| v.to_bits()))));
        alias!("peak_signal_to_noise_ratio", |p, q| fp_val(catch(|| p.peak_signal_to_noise_ratio(q, 255).map(|v| v.to_bits()))));
        alias!("weighted_sum", |p, q| fp_val(catch(|| p.view().weighted_sum(&q.view()))));
    }
    if n >= 2 {
        acc.nontrivial(h64(&("int", &shape, &la, &lb, ka, kb, &a, &b)));
    }
    acc.sample(|| J::obj(vec![("family", J::s("integer deviations / weighted sums, both operands varied")), ("shape", J::us(&shape)), ("layout_a", la.to_json()), ("layout_b", lb.to_json()), ("representation_a", J::s(KINDS[ka])), ("representation_b", J::s(KINDS[kb]))]));
}

// ---------------------------------------------------------------------------
// histograms
// ---------------------------------------------------------------------------
fn hist_case(rng: &mut Rng, acc: &mut Acc) {
    let n = 2 + rng.below(40);
    let d = 1 + rng.below(3);
    let shape = vec![n, d];
    let data: Vec<N64> = (0..n * d).map(|_| n64(rng.range(0, 40) as f64 * 0.25)).collect();
    let lay = Layout::random(2, rng);
    let kind = rng.below(7);
    acc.count(&format!("representation_{}", KINDS[kind]));
    let edges: Vec<Vec<N64>> = (0..d).map(|_| (0..rng.below(7)).map(|_| n64(rng.range(0, 11) as f64)).collect()).collect();
    let mk_grid = || Grid::from(edges.iter().map(|e| Bins::new(Edges::from(e.clone()))).collect::<Vec<_>>());
    diff_op!(acc, rng, "histogram", "N64", &shape, &data, &lay, kind, |a| {
        let v = a.view().into_dimensionality::<Ix2>().unwrap();
        match catch(|| v.histogram(mk_grid())) {
            Ok(h) => format!("{:?} {:?}", h.counts().shape().to_vec(), h.counts().iter().cloned().collect::<Vec<_>>()),
            Err(m) => format!("panic({})", m),
        }
    });
    set_pivots(Pivots::Seeded(7));
    diff_op!(acc, rng, "GridBuilder<Sqrt>::from_array", "N64", &shape, &data, &lay, kind, |a| {
        let v = a.view().into_dimensionality::<Ix2>().unwrap();
        match catch(|| GridBuilder::<Sqrt<N64>>::from_array(&v).map(|b| b.build())) {
            Ok(Ok(g)) => format!("{:?}", g),
            Ok(Err(e)) => format!("Err({:?})", e),
            Err(m) => format!("panic({})", m),
        }
    });
    diff_op!(acc, rng, "GridBuilder<Auto>::from_array", "N64", &shape, &data, &lay, kind, |a| {
        let v = a.view().into_dimensionality::<Ix2>().unwrap();
        match catch(|| GridBuilder::<Auto<N64>>::from_array(&v).map(|b| b.build())) {
            Ok(Ok(g)) => format!("{:?}", g),
            Ok(Err(e)) => format!("Err({:?})", e),
            Err(m) => format!("panic({})", m),
        }
    });
    // Edges built from logically equal 1-D arrays in different representations must be equal
    {
        let ne = rng.below(9);
        let ed: Vec<N64> = (0..ne).map(|_| n64(rng.range(0, 12) as f64)).collect();
        let l1 = Layout::random(1, rng);
        let want = format!("{:?}", Edges::from(ed.clone()));
        acc.eval();
        let e1 = Embedded::new(&[ne], &ed, l1.clone());
        let from_view_copy = format!("{:?}", Edges::from(e1.view().into_dimensionality::<Ix1>().unwrap().to_owned()));
        let owned_sliced = Embedded::new(&[ne], &ed, l1.clone()).into_owned_sliced().into_dimensionality::<Ix1>().unwrap();
        let from_sliced = format!("{:?}", Edges::from(owned_sliced));
        acc.count("op_Edges::from(Array1)");
        if from_view_copy != want || from_sliced != want {
            report(acc, "Edges::from(Array1)", "N64", &[ne], &l1, 1, &want, &format!("copy of view: {} / owned sliced: {}", from_view_copy, from_sliced));
        }
    }
    acc.nontrivial(h64(&("hist", n, d, &lay, kind, data.iter().map(|x| x.bits()).collect::<Vec<_>>())));
}

// ---------------------------------------------------------------------------
// float sums: logged pairs (canonical, variant), judged offline
// ---------------------------------------------------------------------------
fn hex64(xs: &[f64]) -> String {
    let mut s = String::from("[");
    for (i, x) in xs.iter().enumerate() {
        if i > 0 {
            s.push(',');
        }
        let _ = write!(s, "\"{:016x}\"", x.to_bits());
    }
    s.push(']');
    s
}
fn rj<E: std::fmt::Debug>(r: Result<Result<f64, E>, String>) -> String {
    match r {
        Ok(Ok(v)) => format!("\"{:016x}\"", v.to_bits()),
        Ok(Err(e)) => format!("{{\"err\":\"{:?}\"}}", e),
        Err(m) => format!("{{\"panic\":{}}}", J::s(m).render()),
    }
}
fn rjv<E: std::fmt::Debug>(r: Result<Result<Vec<f64>, E>, String>) -> String {
    match r {
        Ok(Ok(v)) => hex64(&v),
        Ok(Err(e)) => format!("{{\"err\":\"{:?}\"}}", e),
        Err(m) => format!("{{\"panic\":{}}}", J::s(m).render()),
    }
}

thread_local! {
    static BUF: std::cell::RefCell<String> = std::cell::RefCell::new(String::new());
}
fn logrec(acc: &mut Acc, op: &str, fields: String) {
    BUF.with(|b| {
        let mut b = b.borrow_mut();
        let _ = write!(b, "{{\"op\":\"{}\",\"ty\":\"f64\",\"sec\":\"{}\",\"k\":{}{}}}\n", op, acc.section, acc.k, fields);
    });
    acc.eval();
    acc.count(&format!("op_{}", op));
}
fn flush() {
    BUF.with(|b| {
        let mut b = b.borrow_mut();
        if !b.is_empty() {
            log_lines(&b);
            b.clear();
        }
    });
}

fn float_case(rng: &mut Rng, acc: &mut Acc) {
    let (shape, axis) = gen_shape(rng, 3);
    let nd = shape.len();
    let n: usize = shape.iter().product();
    let off = *rng.pick(&[0.0, 0.0, 1e3, 1e6]);
    let x: Vec<f64> = (0..n).map(|_| off + rng.normal()).collect();
    let w: Vec<f64> = (0..n).map(|_| 0.1 + rng.unit() * 3.0).collect();
    let p: Vec<f64> = (0..n).map(|_| if rng.chance(0.1) { 0.0 } else { rng.unit() + 0.01 }).collect();
    let qd: Vec<f64> = (0..n).map(|_| rng.unit() + 0.01).collect();
    let (lx, lw) = (Layout::random(nd, rng), Layout::random(nd, rng));
    let (kx, kw) = (rng.below(7), rng.below(7));
    acc.count(&format!("representation_{}", KINDS[kx]));
    let meta = format!(",\"shape\":{:?},\"lay\":\"{}/{}\",\"repr\":\"{}/{}\"", shape, lx.class(), lw.class(), KINDS[kx], KINDS[kw]);
    // single operand ops
    macro_rules! one {
        ($op:expr, $data:expr, $extra:expr, |$a:ident| $body:expr) => {{
            let c = {
                let $a = canon(&shape, $data);
                $body
            };
            let v: Result<String, String> = on_variant!(kx, &shape, $data, &lx, |$a| $body);
            match v {
                Ok(v) => logrec(acc, $op, format!("{}{},\"r\":{},\"r2\":{}", meta, $extra, c, v)),
                Err(m) => report(acc, $op, "f64", &shape, &lx, kx, &c, &m),
            }
        }};
    }
    let xs = format!(",\"x\":{}", hex64(&x));
    one!("mean", &x, xs.clone(), |a| rj(catch(|| SummaryStatisticsExt::mean(&a))));
    let pos: Vec<f64> = x.iter().map(|v| v.abs() + 0.5).collect();
    let ps = format!(",\"x\":{}", hex64(&pos));
    one!("harmonic_mean", &pos, ps.clone(), |a| rj(catch(|| a.harmonic_mean())));
    one!("geometric_mean", &pos, ps.clone(), |a| rj(catch(|| a.geometric_mean())));
    let order = 2 + rng.below(5) as u16;
    one!("central_moment", &x, format!("{},\"p\":{}", xs, order), |a| rj(catch(|| a.central_moment(order))));
    one!("central_moments", &x, format!("{},\"p\":{}", xs, order), |a| rjv(catch(|| a.central_moments(order))));
    one!("skewness", &x, xs.clone(), |a| rj(catch(|| a.skewness())));
    one!("kurtosis", &x, xs.clone(), |a| rj(catch(|| a.kurtosis())));
    one!("entropy", &p, format!(",\"p\":{}", hex64(&p)), |a| rj(catch(|| a.entropy())));
    // two operand ops (both varied); weighted ones through views (same storage type required)
    macro_rules! two {
        ($op:expr, $d1:expr, $d2:expr, $extra:expr, |$a:ident, $b:ident| $body:expr) => {{
            let c = {
                let $a = canon(&shape, $d1);
                let $b = canon(&shape, $d2);
                $body
            };
            let v: Result<Result<String, String>, String> = on_variant!(kw, &shape, $d2, &lw, |bv| {
                let $b = bv.view().into_dyn();
                let inner: Result<String, String> = on_variant!(kx, &shape, $d1, &lx, |av| {
                    let $a = av.view().into_dyn();
                    $body
                });
                inner
            });
            match v {
                Ok(Ok(v)) => logrec(acc, $op, format!("{}{},\"r\":{},\"r2\":{}", meta, $extra, c, v)),
                Ok(Err(m)) | Err(m) => report(acc, $op, "f64", &shape, &lx, kx, &c, &m),
            }
        }};
    }
    let xw = format!(",\"x\":{},\"w\":{}", hex64(&x), hex64(&w));
    two!("weighted_sum", &x, &w, xw.clone(), |a, b| rj(catch(|| a.view().weighted_sum(&b.view()))));
    two!("weighted_mean", &x, &w, xw.clone(), |a, b| rj(catch(|| a.view().weighted_mean(&b.view()))));
    let ddof: f64 = *rng.pick(&[0.0, 1.0, 0.5]);
    let xwd = format!("{},\"ddof\":\"{:016x}\"", xw, ddof.to_bits());
    two!("weighted_var", &x, &w, xwd.clone(), |a, b| rj(catch(|| a.view().weighted_var(&b.view(), ddof))));
    two!("weighted_std", &x, &w, xwd.clone(), |a, b| rj(catch(|| a.view().weighted_std(&b.view(), ddof))));
    let ab = format!(",\"a\":{},\"b\":{}", hex64(&x), hex64(&w));
    two!("sq_l2_dist", &x, &w, ab.clone(), |a, b| rj(catch(|| a.sq_l2_dist(&b))));
    two!("l1_dist", &x, &w, ab.clone(), |a, b| rj(catch(|| a.l1_dist(&b))));
    two!("linf_dist", &x, &w, ab.clone(), |a, b| rj(catch(|| a.linf_dist(&b))));
    let pq = format!(",\"p\":{},\"q\":{}", hex64(&p), hex64(&qd));
    two!("cross_entropy", &p, &qd, pq.clone(), |a, b| rj(catch(|| a.cross_entropy(&b))));
    two!("kl_divergence", &p, &qd, pq.clone(), |a, b| rj(catch(|| a.kl_divergence(&b))));
    // correlation on a 2-D matrix
    if rng.chance(0.5) {
        let nv = 1 + rng.below(5);
        let no = 2 + rng.below(12);
        let m: Vec<f64> = (0..nv * no).map(|_| off + rng.normal()).collect();
        let sh = vec![nv, no];
        let l2 = Layout::random(2, rng);
        let k2 = rng.below(7);
        let c = {
            let a = canon(&sh, &m).into_dimensionality::<Ix2>().unwrap();
            (rjv(catch(|| a.cov(1.0).map(|r| r.iter().cloned().collect::<Vec<f64>>()))), rjv(catch(|| a.pearson_correlation().map(|r| r.iter().cloned().collect::<Vec<f64>>()))))
        };
        let v: Result<(String, String), String> = on_variant!(k2, &sh[..], &m, &l2, |a| {
            let a = a.view().into_dimensionality::<Ix2>().unwrap();
            (rjv(catch(|| a.cov(1.0).map(|r| r.iter().cloned().collect::<Vec<f64>>()))), rjv(catch(|| a.pearson_correlation().map(|r| r.iter().cloned().collect::<Vec<f64>>()))))
        });
        if let Ok(v) = v {
            let one = 1.0f64;
            logrec(acc, "cov", format!(",\"nv\":{},\"no\":{},\"lay\":\"{}\",\"x\":{},\"ddof\":\"{:016x}\",\"r\":{},\"r2\":{}", nv, no, l2.class(), hex64(&m), one.to_bits(), c.0, v.0));
            logrec(acc, "pearson", format!(",\"nv\":{},\"no\":{},\"lay\":\"{}\",\"x\":{},\"r\":{},\"r2\":{}", nv, no, l2.class(), hex64(&m), c.1, v.1));
        }
    }
    flush();
    if n >= 2 {
        acc.nontrivial(h64(&("float", &shape, axis, &lx, &lw, kx, kw, x.iter().map(|v| v.to_bits()).collect::<Vec<_>>())));
    }
    acc.sample(|| J::obj(vec![("family", J::s("float statistics: (canonical, variant) pairs judged offline")), ("shape", J::us(&shape)), ("layout_x", lx.to_json()), ("layout_w", lw.to_json()), ("representation_x", J::s(KINDS[kx])), ("representation_w", J::s(KINDS[kw]))]));
}

fn main() {
    let args = Args::parse();
    let prop = args.prop.clone();
    let logpath = args.rest.iter().position(|a| a == "--log").and_then(|i| args.rest.get(i + 1).cloned());
    if let Some(p) = &logpath {
        open_event_log(p);
    }
    let r = Runner::new(args);
    if prop == "C20" {
        r.section("order_based", r.args.n(12_000, 600_000), |k, rng, acc| match k % 4 {
            0 => ord_case::<i32>(rng, acc),
            1 => ord_case::<i64>(rng, acc),
            2 => ord_case::<u8>(rng, acc),
            _ => ord_case::<N64>(rng, acc),
        });
        r.section("one_dimensional", r.args.n(4_000, 200_000), |k, rng, acc| match k % 3 {
            0 => ord1_case::<i32>(rng, acc),
            1 => ord1_case::<u8>(rng, acc),
            _ => ord1_case::<N64>(rng, acc),
        });
        r.section("skipnan", r.args.n(8_000, 400_000), |k, rng, acc| {
            if k % 2 == 0 {
                nan_case::<f64>(rng, acc)
            } else {
                nan_case::<Option<i32>>(rng, acc)
            }
        });
        r.section("integers", r.args.n(6_000, 300_000), |_k, rng, acc| int_case(rng, acc));
        r.section("histograms", r.args.n(4_000, 200_000), |_k, rng, acc| hist_case(rng, acc));
        r.section("float_pairs", r.args.n(2_000, 100_000), |_k, rng, acc| float_case(rng, acc));
    }
    close_event_log();
    r.finish("layout", vec![]);
}
