//! Driver `quant`: quantile monitors.
//!   C01  quantiles equal the documented order statistic of every lane
//!   C18  (quantile + selection part) bulk == single, item by item
//!   C19  order laws (metamorphic, no oracle)
#![allow(clippy::all)]
use ndarray::prelude::*;
use ndarray::{RemoveAxis, IxDyn};
use ndarray_stats::errors::QuantileError;
use ndarray_stats::interpolate::{Higher, Linear, Lower, Midpoint, Nearest};
use ndarray_stats::{Quantile1dExt, QuantileExt, Sort1dExt};
use noisy_float::types::{n64, N32, N64};
use num_traits::{FromPrimitive, NumOps, ToPrimitive};
use std::cmp::Ordering;
use vharness::dy::Dy;
use vharness::*;

#[derive(Clone, Copy, Debug, PartialEq, Eq, Hash)]
enum St {
    Lower,
    Higher,
    Nearest,
    Midpoint,
    Linear,
}
const ALL_ST: [St; 5] = [St::Lower, St::Higher, St::Nearest, St::Midpoint, St::Linear];

trait QElem: Elem + Ord + Copy + NumOps + FromPrimitive + ToPrimitive + std::fmt::Debug + Send + Sync {
    const FLOAT: bool;
    const SIGNED: bool;
    /// log2 of unit roundoff for floats (-53 / -24), 0 for ints
    const U_EXP: i32;
    const WIDE64: bool;
    fn dy(&self) -> Dy;
    fn tmax() -> Dy;
    fn tmin() -> Dy;
    fn from_small(i: i64) -> Self;
    fn extremes() -> Vec<Self>;
    fn random_wide(rng: &mut Rng) -> Self;
}

macro_rules! qelem_int {
    ($t:ident, $signed:expr, $wide:expr) => {
        impl QElem for $t {
            const FLOAT: bool = false;
            const SIGNED: bool = $signed;
            const U_EXP: i32 = 0;
            const WIDE64: bool = $wide;
            fn dy(&self) -> Dy {
                Dy::int(*self as i128)
            }
            fn tmax() -> Dy {
                Dy::int($t::MAX as i128)
            }
            fn tmin() -> Dy {
                Dy::int($t::MIN as i128)
            }
            fn from_small(i: i64) -> Self {
                let lo = $t::MIN as i128;
                let hi = $t::MAX as i128;
                (i as i128).clamp(lo, hi) as $t
            }
            fn extremes() -> Vec<Self> {
                let mut v = vec![$t::MIN, $t::MIN + 1, 0 as $t, 1 as $t, $t::MAX - 1, $t::MAX, $t::MAX / 2, $t::MAX / 2 + 1];
                if $signed {
                    v.push((0 as $t).wrapping_sub(1));
                    v.push($t::MIN / 2);
                }
                v
            }
            fn random_wide(rng: &mut Rng) -> Self {
                let r = rng.next();
                if $wide {
                    // keep |v| < 2^52 half of the time so Linear is judged
                    if rng.chance(0.6) {
                        let x = (r >> 12) as i64;
                        if $signed && rng.chance(0.5) {
                            (0i64.wrapping_sub(x)) as $t
                        } else {
                            x as $t
                        }
                    } else {
                        r as $t
                    }
                } else {
                    r as $t
                }
            }
        }
    };
}
qelem_int!(i8, true, false);
qelem_int!(u8, false, false);
qelem_int!(i16, true, false);
qelem_int!(i32, true, false);
qelem_int!(i64, true, true);
qelem_int!(u64, false, true);
qelem_int!(usize, false, true);

impl QElem for N64 {
    const FLOAT: bool = true;
    const SIGNED: bool = true;
    const U_EXP: i32 = -53;
    const WIDE64: bool = false;
    fn dy(&self) -> Dy {
        Dy::from_f64(self.raw())
    }
    fn tmax() -> Dy {
        Dy::from_f64(f64::MAX)
    }
    fn tmin() -> Dy {
        Dy::from_f64(f64::MIN)
    }
    fn from_small(i: i64) -> Self {
        n64(i as f64)
    }
    fn extremes() -> Vec<Self> {
        vec![n64(f64::MAX / 2.0), n64(-f64::MAX / 2.0), n64(f64::MAX / 4.0), n64(1e-300), n64(-1e-300), n64(0.0), n64(1.0), n64(-1.0), n64(f64::MIN_POSITIVE), n64(1e300), n64(-1e300)]
    }
    fn random_wide(rng: &mut Rng) -> Self {
        match rng.below(4) {
            0 => n64(rng.range(-50, 50) as f64 / 10.0),
            1 => n64(rng.normal() * 10f64.powi(rng.range(-8, 8) as i32)),
            2 => n64(1.0e6 + rng.range(0, 100) as f64 * 0.01),
            _ => n64((rng.unit() - 0.5) * 2.0),
        }
    }
}
impl QElem for N32 {
    const FLOAT: bool = true;
    const SIGNED: bool = true;
    const U_EXP: i32 = -24;
    const WIDE64: bool = false;
    fn dy(&self) -> Dy {
        Dy::from_f64(self.raw() as f64)
    }
    fn tmax() -> Dy {
        Dy::from_f64(f32::MAX as f64)
    }
    fn tmin() -> Dy {
        Dy::from_f64(f32::MIN as f64)
    }
    fn from_small(i: i64) -> Self {
        N32::new(i as f32)
    }
    fn extremes() -> Vec<Self> {
        vec![N32::new(f32::MAX / 2.0), N32::new(-f32::MAX / 2.0), N32::new(1e-30), N32::new(0.0), N32::new(1.0), N32::new(-1.0), N32::new(1e30)]
    }
    fn random_wide(rng: &mut Rng) -> Self {
        match rng.below(3) {
            0 => N32::new(rng.range(-50, 50) as f32 / 10.0),
            1 => N32::new((rng.normal() * 10f64.powi(rng.range(-6, 6) as i32)) as f32),
            _ => N32::new(((rng.unit() - 0.5) * 2.0) as f32),
        }
    }
}

// ---------------------------------------------------------------------------
// calling the real code
// ---------------------------------------------------------------------------
fn bulk_dyn<A: QElem, D: RemoveAxis>(v: &mut ArrayViewMut<'_, A, D>, axis: usize, qs: &Array1<N64>, st: St) -> Result<ArrayD<A>, QuantileError> {
    match st {
        St::Lower => v.quantiles_axis_mut(Axis(axis), qs, &Lower).map(|a| a.into_dyn()),
        St::Higher => v.quantiles_axis_mut(Axis(axis), qs, &Higher).map(|a| a.into_dyn()),
        St::Nearest => v.quantiles_axis_mut(Axis(axis), qs, &Nearest).map(|a| a.into_dyn()),
        St::Midpoint => v.quantiles_axis_mut(Axis(axis), qs, &Midpoint).map(|a| a.into_dyn()),
        St::Linear => v.quantiles_axis_mut(Axis(axis), qs, &Linear).map(|a| a.into_dyn()),
    }
}
fn single_dyn<A: QElem, D: RemoveAxis>(v: &mut ArrayViewMut<'_, A, D>, axis: usize, q: N64, st: St) -> Result<ArrayD<A>, QuantileError> {
    match st {
        St::Lower => v.quantile_axis_mut(Axis(axis), q, &Lower).map(|a| a.into_dyn()),
        St::Higher => v.quantile_axis_mut(Axis(axis), q, &Higher).map(|a| a.into_dyn()),
        St::Nearest => v.quantile_axis_mut(Axis(axis), q, &Nearest).map(|a| a.into_dyn()),
        St::Midpoint => v.quantile_axis_mut(Axis(axis), q, &Midpoint).map(|a| a.into_dyn()),
        St::Linear => v.quantile_axis_mut(Axis(axis), q, &Linear).map(|a| a.into_dyn()),
    }
}
fn bulk_1d<A: QElem>(v: &mut ArrayViewMut1<'_, A>, qs: &Array1<N64>, st: St) -> Result<ArrayD<A>, QuantileError> {
    match st {
        St::Lower => v.quantiles_mut(qs, &Lower).map(|a| a.into_dyn()),
        St::Higher => v.quantiles_mut(qs, &Higher).map(|a| a.into_dyn()),
        St::Nearest => v.quantiles_mut(qs, &Nearest).map(|a| a.into_dyn()),
        St::Midpoint => v.quantiles_mut(qs, &Midpoint).map(|a| a.into_dyn()),
        St::Linear => v.quantiles_mut(qs, &Linear).map(|a| a.into_dyn()),
    }
}
fn single_1d<A: QElem>(v: &mut ArrayViewMut1<'_, A>, q: N64, st: St) -> Result<ArrayD<A>, QuantileError> {
    let r = match st {
        St::Lower => v.quantile_mut(q, &Lower),
        St::Higher => v.quantile_mut(q, &Higher),
        St::Nearest => v.quantile_mut(q, &Nearest),
        St::Midpoint => v.quantile_mut(q, &Midpoint),
        St::Linear => v.quantile_mut(q, &Linear),
    };
    r.map(|x| arr0(x).into_dyn())
}

#[derive(Clone, Copy, Debug, PartialEq, Eq, Hash)]
enum Ep {
    AxisBulk,
    AxisSingle,
    OneDBulk,
    OneDSingle,
}

#[derive(Clone, Debug)]
struct Case<A> {
    shape: Vec<usize>,
    data: Vec<A>,
    axis: usize,
    layout: Layout,
    static_dim: bool,
}

#[derive(Clone, Debug)]
enum Out<A> {
    Ok(ArrayD<A>),
    Err(String),
    Panic(String),
}

/// Executes one entry point on a fresh embedding of the case.  For the
/// single-q entry points `qs` must have exactly one element.
fn exec<A: QElem>(c: &Case<A>, ep: Ep, qs: &[f64], st: St, pol: Pivots) -> Out<A> {
    let mut e = Embedded::new(&c.shape, &c.data, c.layout.clone());
    let qa: Array1<N64> = qs.iter().map(|&q| n64(q)).collect();
    let nd = c.shape.len();
    let axis = c.axis;
    set_pivots(pol);
    let r = catch(|| {
        let mut v = e.view_mut();
        match ep {
            Ep::AxisBulk => {
                if c.static_dim && nd == 1 {
                    bulk_dyn(&mut v.into_dimensionality::<Ix1>().unwrap(), axis, &qa, st)
                } else if c.static_dim && nd == 2 {
                    bulk_dyn(&mut v.into_dimensionality::<Ix2>().unwrap(), axis, &qa, st)
                } else if c.static_dim && nd == 3 {
                    bulk_dyn(&mut v.into_dimensionality::<Ix3>().unwrap(), axis, &qa, st)
                } else {
                    bulk_dyn(&mut v, axis, &qa, st)
                }
            }
            Ep::AxisSingle => {
                if c.static_dim && nd == 1 {
                    single_dyn(&mut v.into_dimensionality::<Ix1>().unwrap(), axis, qa[0], st)
                } else if c.static_dim && nd == 2 {
                    single_dyn(&mut v.into_dimensionality::<Ix2>().unwrap(), axis, qa[0], st)
                } else if c.static_dim && nd == 3 {
                    single_dyn(&mut v.into_dimensionality::<Ix3>().unwrap(), axis, qa[0], st)
                } else {
                    single_dyn(&mut v, axis, qa[0], st)
                }
            }
            Ep::OneDBulk => bulk_1d(&mut v.into_dimensionality::<Ix1>().unwrap(), &qa, st),
            Ep::OneDSingle => single_1d(&mut v.into_dimensionality::<Ix1>().unwrap(), qa[0], st),
        }
    });
    match r {
        Ok(Ok(a)) => Out::Ok(a),
        Ok(Err(e)) => Out::Err(format!("{:?}", e)),
        Err(m) => Out::Panic(m),
    }
}

// ---------------------------------------------------------------------------
// the oracle
// ---------------------------------------------------------------------------
struct Reading {
    lo: usize,
    hi: usize,
    frac: Dy,
}

fn readings(n: usize, q: f64) -> (Reading, Reading) {
    let m = (n - 1) as f64;
    // reading A: the f64 product, as every numeric library computes "(N-1)q"
    let pa = Dy::from_f64(m * q);
    // reading B: the exact rational product
    let pb = Dy::int((n - 1) as i128).mul(&Dy::from_f64(q));
    let mk = |p: &Dy| -> Reading {
        let lo: usize = p.floor().to_string().parse().unwrap();
        let hi: usize = p.ceil().to_string().parse().unwrap();
        Reading { lo, hi, frac: p.fract() }
    };
    (mk(&pa), mk(&pb))
}

enum Judge {
    Ok,
    Bad(String),
    /// mismatch explained by the known-finding predicate F7
    Known(String),
    Skip,
}

fn f7_predicate<A: QElem>(sorted: &[A], rd: &Reading, st: St) -> bool {
    if !(st == St::Midpoint || st == St::Linear) {
        return false;
    }
    if !A::SIGNED {
        return false;
    }
    let d = sorted[rd.hi].dy().sub(&sorted[rd.lo].dy());
    A::tmax().lt(&d)
}

fn accept<A: QElem>(sorted: &[A], rd: &Reading, st: St, r: &A) -> Result<(), String> {
    let lo = sorted[rd.lo];
    let hi = sorted[rd.hi];
    let half = Dy::pow2(-1);
    match st {
        St::Lower => {
            if *r == lo {
                Ok(())
            } else {
                Err(format!("Lower: expected sorted[{}] = {}", rd.lo, lo.show()))
            }
        }
        St::Higher => {
            if *r == hi {
                Ok(())
            } else {
                Err(format!("Higher: expected sorted[{}] = {}", rd.hi, hi.show()))
            }
        }
        St::Nearest => {
            let ok = match rd.frac.cmp(&half) {
                Ordering::Less => *r == lo,
                Ordering::Greater => *r == hi,
                Ordering::Equal => *r == lo || *r == hi,
            };
            if ok {
                Ok(())
            } else {
                Err(format!("Nearest: fraction {} between sorted[{}] = {} and sorted[{}] = {}", rd.frac.show(), rd.lo, lo.show(), rd.hi, hi.show()))
            }
        }
        St::Midpoint | St::Linear => {
            let (l, h, rr) = (lo.dy(), hi.dy(), r.dy());
            let exact = if st == St::Midpoint { l.add(&h).half() } else { l.add(&rd.frac.mul(&h.sub(&l))) };
            let err = rr.sub(&exact).abs();
            if A::FLOAT {
                let mx = l.abs().max(&h.abs());
                // forward error of the documented computation lo + fl(f * fl(hi - lo)) (Midpoint: f = 1/2, exact):
                // |r - exact| <= 2u*f*|hi-lo| + u*|exact| to first order; judged with 4u*f*|hi-lo| + 2u*|exact| plus one
                // subnormal step (the bound shrinks with the fraction, so an interpolation term that is dropped or
                // mis-scaled is seen even when it is tiny relative to the operands)
                let d = h.sub(&l).abs();
                let fd = if st == St::Midpoint { d.half() } else { rd.frac.mul(&d) };
                let tol = fd.mul(&Dy::pow2(A::U_EXP + 2)).add(&exact.abs().mul(&Dy::pow2(A::U_EXP + 1))).add(&Dy::pow2(if A::U_EXP == -53 { -1074 } else { -149 }));
                let slack = mx.mul(&Dy::pow2(A::U_EXP + 1));
                if !err.le(&tol) {
                    return Err(format!("{:?}: result {} differs from exact {} by more than 4u*f*|hi-lo| + 2u*|exact| (lo={}, hi={}, fraction={})", st, r.show(), exact.show(), lo.show(), hi.show(), rd.frac.show()));
                }
                if rr.lt(&l.sub(&slack)) || h.add(&slack).lt(&rr) {
                    return Err(format!("{:?}: result {} outside [lo, hi] = [{}, {}]", st, r.show(), lo.show(), hi.show()));
                }
                Ok(())
            } else {
                if !err.le(&Dy::int(1)) {
                    return Err(format!("{:?}: result {} more than one unit from exact {} (lo={}, hi={}, fraction={})", st, r.show(), exact.show(), lo.show(), hi.show(), rd.frac.show()));
                }
                if rr.lt(&l) || h.lt(&rr) {
                    return Err(format!("{:?}: result {} outside [lo, hi] = [{}, {}]", st, r.show(), lo.show(), hi.show()));
                }
                Ok(())
            }
        }
    }
}

/// Judges one returned element for one lane.
fn judge<A: QElem>(sorted: &[A], q: f64, st: St, r: Result<&A, &str>) -> Judge {
    let n = sorted.len();
    let (ra, rb) = readings(n, q);
    if st == St::Linear && A::WIDE64 {
        let lim = Dy::pow2(52);
        for rd in [&ra, &rb] {
            if !sorted[rd.lo].dy().abs().lt(&lim) || !sorted[rd.hi].dy().abs().lt(&lim) {
                return Judge::Skip;
            }
        }
    }
    let known = f7_predicate(sorted, &ra, st) || f7_predicate(sorted, &rb, st);
    match r {
        Err(msg) => {
            if known {
                Judge::Known(format!("panic: {}", msg))
            } else {
                Judge::Bad(format!("panicked: {}", msg))
            }
        }
        Ok(r) => match accept(sorted, &ra, st, r) {
            Ok(()) => Judge::Ok,
            Err(ea) => match accept(sorted, &rb, st, r) {
                Ok(()) => Judge::Ok,
                Err(_) => {
                    if known {
                        Judge::Known(ea)
                    } else {
                        Judge::Bad(ea)
                    }
                }
            },
        },
    }
}

// ---------------------------------------------------------------------------
// generators
// ---------------------------------------------------------------------------
fn gen_lane_values<A: QElem>(rng: &mut Rng, total: usize) -> Vec<A> {
    let class = rng.below(9);
    let base = rng.range(-20, 20);
    let mut v: Vec<A> = match class {
        0 => (0..total).map(|_| A::from_small(base + rng.range(0, 2))).collect(),
        1 => (0..total).map(|_| A::from_small(base + rng.range(0, 5))).collect(),
        2 => vec![A::from_small(base); total],
        3 => (0..total).map(|i| A::from_small(base + i as i64)).collect(),
        4 => (0..total).map(|i| A::from_small(base + (total - i) as i64)).collect(),
        5 => {
            let ex = A::extremes();
            (0..total).map(|_| *rng.pick(&ex)).collect()
        }
        6 => (0..total).map(|_| A::random_wide(rng)).collect(),
        7 => {
            let ex = A::extremes();
            (0..total).map(|_| if rng.chance(0.3) { *rng.pick(&ex) } else { A::from_small(rng.range(-100, 100)) }).collect()
        }
        _ => (0..total).map(|_| A::from_small(rng.range(-1000, 1000))).collect(),
    };
    if class == 3 && rng.chance(0.5) {
        // organ pipe
        let mut o = v.clone();
        let (mut l, mut r) = (0usize, total);
        for (j, x) in v.iter().enumerate() {
            if j % 2 == 0 {
                o[l] = *x;
                l += 1;
            } else {
                r -= 1;
                o[r] = *x;
            }
        }
        v = o;
    }
    v
}

fn next_up(x: f64) -> f64 {
    if x >= 1.0 {
        1.0
    } else if x == 0.0 {
        5e-324
    } else {
        f64::from_bits(x.to_bits() + 1)
    }
}
fn next_down(x: f64) -> f64 {
    if x <= 0.0 {
        0.0
    } else {
        f64::from_bits(x.to_bits() - 1)
    }
}

fn gen_q(rng: &mut Rng, n: usize) -> f64 {
    let nm1 = (n.max(2) - 1) as f64;
    let k = rng.below(n.max(1)) as f64;
    let q = match rng.below(12) {
        0 => 0.0,
        1 => 1.0,
        2 => k / nm1,
        3 => next_down(k / nm1),
        4 => next_up(k / nm1),
        5 => (k + 0.5) / nm1,
        6 => next_down((k + 0.5) / nm1),
        7 => next_up((k + 0.5) / nm1),
        8 => *rng.pick(&[5e-324, 1.0 - 2f64.powi(-53), 0.5, 0.25, 0.75, 1e-17, 0.1, 0.9, 1.0 / 3.0]),
        9 => {
            let mut x = k / nm1;
            for _ in 0..rng.below(9) {
                x = if rng.chance(0.5) { next_up(x) } else { next_down(x) };
            }
            x
        }
        _ => rng.unit(),
    };
    q.clamp(0.0, 1.0)
}

fn gen_case<A: QElem>(rng: &mut Rng, max_lane: usize) -> Case<A> {
    let nd = *rng.pick(&[1usize, 1, 2, 2, 3, 3, 4]);
    let axis = rng.below(nd);
    let mut shape: Vec<usize> = (0..nd).map(|_| 1 + rng.below(3)).collect();
    shape[axis] = if nd == 1 && rng.chance(0.1) { 1 + rng.below(300) } else { 1 + rng.below(max_lane) };
    if rng.chance(0.08) {
        shape[axis] = 1;
    }
    // arrays without lanes: an axis other than the reduced one has length zero (the result is an empty array
    // whose shape must still be the documented one)
    if nd >= 2 && rng.chance(0.03) {
        let o = (axis + 1 + rng.below(nd - 1)) % nd;
        shape[o] = 0;
    }
    let total: usize = shape.iter().product();
    let data = gen_lane_values::<A>(rng, total);
    let layout = if rng.chance(0.15) { Layout::canonical(nd) } else { Layout::random(nd, rng) };
    Case { shape, data, axis, layout, static_dim: rng.chance(0.6) }
}

fn sorted_lanes<A: QElem>(c: &Case<A>) -> Vec<Vec<A>> {
    lanes_of(&c.shape, c.axis)
        .into_iter()
        .map(|idx| {
            let mut l: Vec<A> = idx.iter().map(|&i| c.data[i]).collect();
            l.sort();
            l
        })
        .collect()
}

fn expected_shape(shape: &[usize], axis: usize, ep: Ep, nq: usize) -> Vec<usize> {
    let mut s = shape.to_vec();
    match ep {
        Ep::AxisBulk => s[axis] = nq,
        Ep::AxisSingle => {
            s.remove(axis);
        }
        Ep::OneDBulk => s = vec![nq],
        Ep::OneDSingle => s = vec![],
    }
    s
}

/// element of the result for lane `lane` (row-major over the remaining axes) and request j
fn result_elem<'a, A>(res: &'a ArrayD<A>, shape: &[usize], axis: usize, ep: Ep, lane: usize, j: usize) -> &'a A {
    let mut rem = shape.to_vec();
    rem.remove(axis);
    let li = unravel(lane, &rem);
    match ep {
        Ep::AxisBulk => {
            let mut idx = li.clone();
            idx.insert(axis, j);
            &res[IxDyn(&idx)]
        }
        Ep::AxisSingle => &res[IxDyn(&li)],
        Ep::OneDBulk => &res[IxDyn(&[j])],
        Ep::OneDSingle => &res[IxDyn(&[])],
    }
}

fn case_json<A: QElem>(c: &Case<A>, ep: Ep, qs: &[f64], st: St) -> J {
    J::obj(vec![
        ("elem", J::s(A::NAME)),
        ("shape", J::us(&c.shape)),
        ("axis", J::u(c.axis)),
        ("layout", c.layout.to_json()),
        ("static_dim", J::B(c.static_dim)),
        ("entry", J::s(format!("{:?}", ep))),
        ("strategy", J::s(format!("{:?}", st))),
        ("qs", J::A(qs.iter().map(|q| J::s(format!("{:e} (bits {:#x})", q, q.to_bits()))).collect())),
        ("data", J::A(c.data.iter().take(64).map(|x| J::s(x.show())).collect())),
    ])
}

fn pick_policy(rng: &mut Rng) -> Pivots {
    match rng.below(6) {
        0 => Pivots::Natural,
        1 => Pivots::First,
        2 => Pivots::Last,
        3 => Pivots::Alternate,
        _ => Pivots::Seeded(rng.next()),
    }
}

// ---------------------------------------------------------------------------
// C01
// ---------------------------------------------------------------------------
fn c01_case<A: QElem>(rng: &mut Rng, acc: &mut Acc) {
    let c = gen_case::<A>(rng, 40);
    let n = c.shape[c.axis];
    let nd = c.shape.len();
    let lanes = sorted_lanes(&c);
    let st = *rng.pick(&ALL_ST);
    let ep = if nd == 1 { *rng.pick(&[Ep::AxisBulk, Ep::AxisSingle, Ep::OneDBulk, Ep::OneDSingle]) } else { *rng.pick(&[Ep::AxisBulk, Ep::AxisSingle]) };
    let nq = match ep {
        Ep::AxisBulk | Ep::OneDBulk => *rng.pick(&[0usize, 1, 2, 3, 5, 8]),
        _ => 1,
    };
    let mut qs: Vec<f64> = (0..nq).map(|_| gen_q(rng, n)).collect();
    if nq >= 3 && rng.chance(0.4) {
        qs[nq - 1] = qs[0]; // duplicates
    }
    if nq >= 2 {
        // several requests inside one rank gap; the list already sorted (either way) in a third of the cases
        if n >= 2 && rng.chance(0.3) {
            let k = rng.below(n - 1) as f64;
            for j in 0..nq.min(3) {
                qs[j] = ((k + rng.unit()) / (n - 1) as f64).min(1.0);
            }
        }
        match rng.below(6) {
            0 => qs.sort_by(|a, b| a.partial_cmp(b).unwrap()),
            1 => qs.sort_by(|a, b| b.partial_cmp(a).unwrap()),
            _ => {}
        }
    }
    let pols = [pick_policy(rng), pick_policy(rng), Pivots::Seeded(rng.next())];
    let outs: Vec<Out<A>> = pols.iter().map(|p| exec(&c, ep, &qs, st, p.clone())).collect();
    acc.evals += 3;
    acc.count(&format!("elem_{}", A::NAME));
    acc.count(&format!("strategy_{:?}", st));
    acc.count(&format!("entry_{:?}", ep));
    acc.count(&format!("layout_{}", c.layout.class()));
    acc.count(&format!("ndim_{}", nd));
    let want_shape = expected_shape(&c.shape, c.axis, ep, nq);
    let mut known_msgs: Vec<String> = vec![];
    let mut any_skip = false;
    // judge the first run against the oracle
    match &outs[0] {
        Out::Err(e) => {
            acc.violation("oracle", None, J::obj(vec![("what", J::s(format!("valid q on a non-empty axis returned Err({})", e))), ("case", case_json(&c, ep, &qs, st))]));
            return;
        }
        Out::Panic(m) => {
            // a panic is attributable to F7 only if some lane/q satisfies the predicate
            let mut known = false;
            let mut skip = false;
            for l in &lanes {
                for &q in &qs {
                    match judge(l, q, st, Err(m.as_str())) {
                        Judge::Known(_) => known = true,
                        Judge::Skip => skip = true,
                        _ => {}
                    }
                }
            }
            if skip && !known {
                // Linear on 64-bit integers with a magnitude >= 2^52 involved: outside the property's scope
                acc.count("linear_64bit_magnitude_skipped");
                return;
            }
            if known {
                acc.violation("oracle", Some("F7"), J::obj(vec![("what", J::s(format!("panicked: {}", m))), ("case", case_json(&c, ep, &qs, st))]));
            } else {
                acc.violation("oracle", None, J::obj(vec![("what", J::s(format!("panicked: {}", m))), ("case", case_json(&c, ep, &qs, st))]));
            }
            return;
        }
        Out::Ok(res) => {
            if res.shape() != &want_shape[..] {
                acc.violation("shape", None, J::obj(vec![("what", J::s(format!("result shape {:?}, expected {:?}", res.shape(), want_shape))), ("case", case_json(&c, ep, &qs, st))]));
                return;
            }
            for (li, l) in lanes.iter().enumerate() {
                for (j, &q) in qs.iter().enumerate() {
                    let r = result_elem(res, &c.shape, c.axis, ep, li, j);
                    match judge(l, q, st, Ok(r)) {
                        Judge::Ok => {}
                        Judge::Skip => any_skip = true,
                        Judge::Known(m) => known_msgs.push(m),
                        Judge::Bad(m) => {
                            acc.violation(
                                "oracle",
                                None,
                                J::obj(vec![("what", J::s(m)), ("lane", J::u(li)), ("request", J::u(j)), ("got", J::s(r.show())), ("sorted_lane", show_vec(l)), ("case", case_json(&c, ep, &qs, st))]),
                            );
                            return;
                        }
                    }
                }
            }
        }
    }
    if !known_msgs.is_empty() {
        acc.violation("oracle", Some("F7"), J::obj(vec![("what", J::s(known_msgs[0].clone())), ("case", case_json(&c, ep, &qs, st))]));
        return;
    }
    if any_skip {
        acc.count("linear_64bit_magnitude_skipped");
    }
    // determinism across pivot policies
    if let Out::Ok(r0) = &outs[0] {
        for (pi, o) in outs.iter().enumerate().skip(1) {
            let same = match o {
                Out::Ok(r) => r == r0,
                _ => false,
            };
            if !same {
                acc.violation(
                    "determinism",
                    None,
                    J::obj(vec![("what", J::s(format!("results differ between pivot policies {:?} and {:?}", pols[0], pols[pi]))), ("case", case_json(&c, ep, &qs, st))]),
                );
                return;
            }
        }
    }
    if n >= 2 && nq >= 1 {
        acc.nontrivial(h64(&(A::NAME, &c.shape, c.axis, &c.layout, format!("{:?}{:?}", ep, st), qs.iter().map(|q| q.to_bits()).collect::<Vec<_>>(), c.data.iter().map(|x| x.bits()).collect::<Vec<_>>())));
    }
    acc.sample(|| case_json(&c, ep, &qs, st));
}

/// all pivot sequences for short 1-D lanes
fn c01_exh<A: QElem>(pat: &[u8], acc: &mut Acc) {
    let n = pat.len();
    let data: Vec<A> = pat.iter().map(|&k| A::from_small(k as i64 * 3 - 4)).collect();
    let c = Case { shape: vec![n], data: data.clone(), axis: 0, layout: Layout::canonical(1), static_dim: true };
    let mut sorted = data.clone();
    sorted.sort();
    let nm1 = (n.max(2) - 1) as f64;
    let mut qs: Vec<f64> = vec![0.0, 1.0, 0.5, 5e-324, next_down(1.0)];
    for k in 0..n {
        let b = k as f64 / nm1;
        qs.extend([b, next_up(b), next_down(b), ((k as f64 + 0.5) / nm1).min(1.0), next_up(((k as f64 + 0.5) / nm1).min(1.0)), next_down(((k as f64 + 0.5) / nm1).min(1.0))]);
    }
    for st in ALL_ST {
        for &q in &qs {
            let mut first: Option<Out<A>> = None;
            let accc = std::cell::RefCell::new(&mut *acc);
            let (cnt, _ok, _c) = enumerate_pivots(
                100_000,
                || {
                    let mut a = accc.borrow_mut();
                    a.eval();
                    // run under the currently installed script: exec() resets the policy, so inline
                    let mut arr = Array1::from(data.clone());
                    let r = catch(|| single_1d(&mut arr.view_mut(), n64(q), st));
                    let out = match r {
                        Ok(Ok(x)) => Out::Ok(x),
                        Ok(Err(e)) => Out::Err(format!("{:?}", e)),
                        Err(m) => Out::Panic(m),
                    };
                    let bad = match &out {
                        Out::Ok(x) => match judge(&sorted, q, st, Ok(&x[IxDyn(&[])])) {
                            Judge::Bad(m) => Some(m),
                            _ => None,
                        },
                        Out::Err(e) => Some(format!("Err({})", e)),
                        Out::Panic(m) => Some(format!("panic {}", m)),
                    };
                    if let Some(m) = bad {
                        let log = take_pivot_log();
                        a.violation("oracle_all_pivots", None, J::obj(vec![("what", J::s(m)), ("pivots", J::s(format!("{:?}", log))), ("case", case_json(&c, Ep::OneDSingle, &[q], st))]));
                    }
                    if let Some(f) = &first {
                        let same = match (f, &out) {
                            (Out::Ok(a0), Out::Ok(b0)) => a0 == b0,
                            _ => false,
                        };
                        if !same {
                            a.violation("determinism_all_pivots", None, J::obj(vec![("what", J::s("result depends on the pivot sequence")), ("case", case_json(&c, Ep::OneDSingle, &[q], st))]));
                        }
                    } else {
                        first = Some(out);
                    }
                },
                |_| {},
            );
            drop(accc);
            if n >= 2 {
                acc.exact_nontrivial += cnt;
            }
            acc.count_n("pivot_sequences", cnt);
        }
    }
}

// ---------------------------------------------------------------------------
// C18 (quantile / selection part)
// ---------------------------------------------------------------------------
fn c18_case<A: QElem>(rng: &mut Rng, acc: &mut Acc) {
    let c = gen_case::<A>(rng, 30);
    let n = c.shape[c.axis];
    let nd = c.shape.len();
    let st = *rng.pick(&ALL_ST);
    let oned = nd == 1 && rng.chance(0.5);
    let nq = *rng.pick(&[0usize, 1, 2, 3, 4, 6, 9, 16, 32]);
    let mut qs: Vec<f64> = (0..nq).map(|_| gen_q(rng, n)).collect();
    // q values sharing / straddling an index
    if nq >= 4 && n >= 3 {
        let k = 1 + rng.below(n - 2);
        let b = k as f64 / (n - 1) as f64;
        qs[0] = b;
        qs[1] = next_down(b);
        qs[2] = next_up(b);
        qs[3] = (b + 0.3 / (n - 1) as f64).min(1.0);
    }
    if nq >= 2 && rng.chance(0.5) {
        let j = rng.below(nq);
        qs[j] = qs[(j + 1) % nq];
    }
    // requests that touch only the two extreme positions of every lane
    if nq >= 2 && rng.chance(0.12) {
        for j in 0..nq {
            qs[j] = *rng.pick(&[0.0, 1.0, 5e-324, 1.0 - 2f64.powi(-53), 1.0, 0.0]);
        }
        qs[0] = 0.0;
        qs[nq - 1] = 1.0;
    }
    // dense request: every rank of the lane (or most of them), scrambled
    if n >= 2 && rng.chance(0.08) {
        let keep = *rng.pick(&[1.0, 0.9, 0.8]);
        qs = (0..n).filter(|_| rng.chance(keep)).map(|k| k as f64 / (n - 1) as f64).collect();
        rng.shuffle(&mut qs);
        acc.count("qs_dense_all_ranks");
    }
    // the request list in non-decreasing / non-increasing order (several requests inside one rank gap included)
    match rng.below(10) {
        0 | 1 | 2 => {
            qs.sort_by(|a, b| a.partial_cmp(b).unwrap());
            acc.count("qs_sorted_ascending");
        }
        3 => {
            qs.sort_by(|a, b| b.partial_cmp(a).unwrap());
            acc.count("qs_sorted_descending");
        }
        _ => {}
    }
    let (epb, eps) = if oned { (Ep::OneDBulk, Ep::OneDSingle) } else { (Ep::AxisBulk, Ep::AxisSingle) };
    let bulk = exec(&c, epb, &qs, st, pick_policy(rng));
    acc.eval();
    acc.count(&format!("elem_{}", A::NAME));
    let nq = qs.len();
    acc.count(&format!("nq_{}", if nq > 32 { 33 } else { nq }));
    let lanes = lanes_of(&c.shape, c.axis).len();
    let mut f7 = false;
    {
        let sl = sorted_lanes(&c);
        for l in &sl {
            for &q in &qs {
                let (ra, rb) = readings(l.len(), q);
                if f7_predicate(l, &ra, st) || f7_predicate(l, &rb, st) {
                    f7 = true;
                }
            }
        }
    }
    for (j, &q) in qs.iter().enumerate() {
        let single = exec(&c, eps, &[q], st, pick_policy(rng));
        acc.eval();
        let ok = match (&bulk, &single) {
            (Out::Ok(b), Out::Ok(s)) => (0..lanes).all(|li| result_elem(b, &c.shape, c.axis, epb, li, j) == result_elem(s, &c.shape, c.axis, eps, li, 0)),
            (Out::Panic(_), Out::Panic(_)) => true,
            (Out::Err(a), Out::Err(b)) => a == b,
            // the bulk call may panic because of another q of the list (known-finding class only)
            (Out::Panic(_), _) | (_, Out::Panic(_)) => f7,
            _ => false,
        };
        if !ok {
            acc.violation(
                "bulk_vs_single",
                if f7 { Some("F7") } else { None },
                J::obj(vec![("what", J::s(format!("slice {} of the bulk result differs from the single-q call for q = {:e}", j, q))), ("bulk", J::s(format!("{:?}", bulk))), ("single", J::s(format!("{:?}", single))), ("case", case_json(&c, epb, &qs, st))]),
            );
            return;
        }
    }
    if let Out::Ok(b) = &bulk {
        let want = expected_shape(&c.shape, c.axis, epb, nq);
        if b.shape() != &want[..] {
            acc.violation("shape", None, J::obj(vec![("what", J::s(format!("bulk shape {:?} expected {:?}", b.shape(), want))), ("case", case_json(&c, epb, &qs, st))]));
        }
    }
    if nq >= 2 && n >= 2 {
        acc.nontrivial(h64(&(A::NAME, &c.shape, c.axis, &c.layout, format!("{:?}", st), qs.iter().map(|q| q.to_bits()).collect::<Vec<_>>(), c.data.iter().map(|x| x.bits()).collect::<Vec<_>>())));
    }
    acc.sample(|| case_json(&c, epb, &qs, st));
}

fn c18_select(rng: &mut Rng, acc: &mut Acc) {
    let big = rng.chance(0.1);
    let n = 1 + rng.below(if big { 200 } else { 30 });
    let alpha = *rng.pick(&[2usize, 4, 50, 250]);
    let data: Vec<Tracked> = (0..n).map(|i| Tracked { key: rng.below(alpha) as u8, id: i as u16 }).collect();
    let m = rng.below(33);
    let mut req: Vec<usize> = (0..m).map(|_| rng.below(n)).collect();
    if m >= 2 && rng.chance(0.12) {
        // only the two extreme positions, in any order and with repeats
        for x in req.iter_mut() {
            *x = if rng.chance(0.5) { 0 } else { n - 1 };
        }
        req[0] = n - 1;
        req[m - 1] = 0;
    }
    let lay = Layout { perm: vec![0], step: vec![*rng.pick(&[1isize, 2, -1, -3])], pad_b: vec![rng.below(2)], pad_a: vec![rng.below(2)] };
    let mut e = Embedded::new(&[n], &data, lay.clone());
    set_pivots(pick_policy(rng));
    let reqa = Array1::from(req.clone());
    let bulk = catch(|| e.view_mut().into_dimensionality::<Ix1>().unwrap().get_many_from_sorted_mut(&reqa));
    acc.eval();
    acc.count("selection_pairs");
    let bulk = match bulk {
        Ok(b) => b,
        Err(m) => {
            acc.violation("bulk_vs_single", None, J::obj(vec![("what", J::s(format!("bulk selection panicked: {}", m))), ("n", J::u(n)), ("request", J::us(&req))]));
            return;
        }
    };
    for &i in &req {
        let mut e2 = Embedded::new(&[n], &data, lay.clone());
        set_pivots(pick_policy(rng));
        let s = catch(|| e2.view_mut().into_dimensionality::<Ix1>().unwrap().get_from_sorted_mut(i));
        acc.eval();
        let ok = match (&s, bulk.get(&i)) {
            (Ok(x), Some(y)) => x.key == y.key,
            _ => false,
        };
        if !ok {
            acc.violation(
                "bulk_vs_single",
                None,
                J::obj(vec![("what", J::s(format!("bulk entry for index {} is {:?}, single selection gives {:?}", i, bulk.get(&i).map(|t| t.show()), s.map(|t| t.show())))), ("keys", J::A(data.iter().map(|t| J::I(t.key as i128)).collect())), ("request", J::us(&req))]),
            );
            return;
        }
    }
    let mut d = req.clone();
    d.sort_unstable();
    d.dedup();
    if bulk.len() != d.len() {
        acc.violation("bulk_vs_single", None, J::obj(vec![("what", J::s("bulk map does not have one entry per distinct index")), ("request", J::us(&req))]));
    }
    if m >= 2 {
        acc.nontrivial(h64(&(data.iter().map(|t| t.key).collect::<Vec<_>>(), &req, &lay)));
    }
}

// ---------------------------------------------------------------------------
// C19: order laws (no oracle)
// ---------------------------------------------------------------------------
fn q1d<A: QElem>(data: &[A], lay: &Layout, q: f64, st: St, pol: Pivots) -> Out<A> {
    let c = Case { shape: vec![data.len()], data: data.to_vec(), axis: 0, layout: lay.clone(), static_dim: true };
    exec(&c, Ep::OneDSingle, &[q], st, pol)
}

fn scalar<A: QElem>(o: &Out<A>) -> Option<A> {
    match o {
        Out::Ok(a) => Some(a[IxDyn(&[])]),
        _ => None,
    }
}

fn ulp_slack<A: QElem>(a: &A, b: &A) -> Dy {
    if A::FLOAT {
        a.dy().abs().max(&b.dy().abs()).mul(&Dy::pow2(A::U_EXP + 2))
    } else {
        Dy::int(0)
    }
}

fn f7_possible<A: QElem>(data: &[A]) -> bool {
    if !A::SIGNED {
        return false;
    }
    let mn = data.iter().min().unwrap().dy();
    let mx = data.iter().max().unwrap().dy();
    A::tmax().lt(&mx.sub(&mn))
}

fn wide_linear_unjudged<A: QElem>(data: &[A]) -> bool {
    A::WIDE64 && data.iter().any(|x| !x.dy().abs().lt(&Dy::pow2(52)))
}

fn c19_case<A: QElem>(rng: &mut Rng, acc: &mut Acc) {
    let big = rng.chance(0.1);
    let n = 1 + rng.below(if big { 120 } else { 24 });
    let data = gen_lane_values::<A>(rng, n);
    let lay = if rng.chance(0.3) { Layout::canonical(1) } else { Layout::random(1, rng) };
    let f7 = f7_possible(&data);
    let cls = if f7 { Some("F7") } else { None };
    let mn = *data.iter().min().unwrap();
    let mx = *data.iter().max().unwrap();
    acc.count(&format!("elem_{}", A::NAME));
    let cj = |q: f64, st: St| J::obj(vec![("elem", J::s(A::NAME)), ("data", show_vec(&data)), ("layout", lay.to_json()), ("q", J::s(format!("{:e} ({:#x})", q, q.to_bits()))), ("strategy", J::s(format!("{:?}", st)))]);
    // dense q grid
    let nm1 = (n.max(2) - 1) as f64;
    let mut grid: Vec<f64> = vec![0.0, 1.0];
    for _ in 0..6 {
        let k = rng.below(n) as f64;
        for base in [k / nm1, ((k + 0.5) / nm1).min(1.0)] {
            let mut up = base;
            let mut dn = base;
            grid.push(base);
            for step in 1..=8 {
                up = next_up(up);
                dn = next_down(dn);
                if step == 1 || step == 2 || step == 8 {
                    grid.push(up);
                    grid.push(dn);
                }
            }
        }
        grid.push(rng.unit());
    }
    grid.sort_by(|a, b| a.partial_cmp(b).unwrap());
    grid.dedup();
    let lin_unjudged = wide_linear_unjudged(&data);
    // evaluate all strategies on the grid
    let mut table: Vec<Vec<Option<A>>> = vec![];
    for st in ALL_ST {
        let mut row = vec![];
        for &q in &grid {
            let o = q1d(&data, &lay, q, st, pick_policy(rng));
            acc.eval();
            let s = scalar(&o);
            if s.is_none() {
                let lin_skip = st == St::Linear && lin_unjudged;
                if !lin_skip {
                    acc.violation("law_total", if (st == St::Midpoint || st == St::Linear) && f7 { cls } else { None }, J::obj(vec![("what", J::s(format!("valid call failed: {:?}", o))), ("case", cj(q, st))]));
                    return;
                }
            }
            row.push(s);
        }
        table.push(row);
    }
    let interp = |st: St| st == St::Midpoint || st == St::Linear;
    for (si, st) in ALL_ST.iter().enumerate() {
        if *st == St::Linear && lin_unjudged {
            // 64-bit integers of magnitude >= 2^52: the documented computation goes through f64, so only the
            // relations it guarantees exactly are judged: Q(0) = min, Q(1) = max, and Linear == Lower wherever the
            // index (N-1)q is integral (fraction 0 adds nothing to the lower element)
            for (j, &q) in grid.iter().enumerate() {
                if let (Some(v), Some(lo)) = (table[si][j], table[0][j]) {
                    let idx = (n - 1) as f64 * q;
                    if idx.fract() == 0.0 {
                        acc.count("relations_checked");
                        if v != lo || (q == 0.0 && v != mn) || (q == 1.0 && v != mx) {
                            acc.violation("law_coincide", if f7 { cls } else { None }, J::obj(vec![("what", J::s(format!("(N-1)q = {} is integral but Linear = {} and Lower = {} (min {}, max {})", idx, v.show(), lo.show(), mn.show(), mx.show()))), ("case", cj(q, *st))]));
                            return;
                        }
                    }
                }
            }
            acc.count("linear_64bit_magnitude_exact_relations_only");
            continue;
        }
        let kc = if interp(*st) { cls } else { None };
        let row = &table[si];
        // (1) monotone in q
        for j in 1..grid.len() {
            if let (Some(a), Some(b)) = (row[j - 1], row[j]) {
                acc.count("relations_checked");
                // float interpolation: one unit in the last place *of the operands*; without an oracle the
                // operands' magnitude is bounded by the lane's extreme magnitude
                let ok = if A::FLOAT && interp(*st) { a.dy().le(&b.dy().add(&ulp_slack(&mn, &mx))) } else { a <= b };
                if !ok {
                    acc.violation("law_monotone", kc, J::obj(vec![("what", J::s(format!("Q({:e}) = {} > Q({:e}) = {}", grid[j - 1], a.show(), grid[j], b.show()))), ("case", cj(grid[j], *st))]));
                    return;
                }
            }
        }
        // (2) range, ends
        for (j, &q) in grid.iter().enumerate() {
            if let Some(v) = row[j] {
                acc.count("relations_checked");
                let sl = if interp(*st) { ulp_slack(&mn, &mx) } else { Dy::int(0) };
                if v.dy().lt(&mn.dy().sub(&sl)) || mx.dy().add(&sl).lt(&v.dy()) {
                    acc.violation("law_range", kc, J::obj(vec![("what", J::s(format!("Q = {} outside [min, max] = [{}, {}]", v.show(), mn.show(), mx.show()))), ("case", cj(q, *st))]));
                    return;
                }
                if (q == 0.0 && v != mn) || (q == 1.0 && v != mx) {
                    acc.violation("law_ends", kc, J::obj(vec![("what", J::s(format!("Q({}) = {} but min = {}, max = {}", q, v.show(), mn.show(), mx.show()))), ("case", cj(q, *st))]));
                    return;
                }
            }
        }
    }
    // (3) Lower <= {Nearest, Midpoint, Linear} <= Higher ; (4) all equal when (N-1)q integral (exactly)
    for (j, &q) in grid.iter().enumerate() {
        let lo = table[0][j];
        let hi = table[1][j];
        if let (Some(lo), Some(hi)) = (lo, hi) {
            for si in 2..5 {
                if ALL_ST[si] == St::Linear && lin_unjudged {
                    continue;
                }
                if let Some(v) = table[si][j] {
                    acc.count("relations_checked");
                    let sl = if interp(ALL_ST[si]) { ulp_slack(&lo, &hi) } else { Dy::int(0) };
                    if v.dy().lt(&lo.dy().sub(&sl)) || hi.dy().add(&sl).lt(&v.dy()) {
                        acc.violation("law_sandwich", if interp(ALL_ST[si]) { cls } else { None }, J::obj(vec![("what", J::s(format!("Lower = {}, {:?} = {}, Higher = {}", lo.show(), ALL_ST[si], v.show(), hi.show()))), ("case", cj(q, ALL_ST[si]))]));
                        return;
                    }
                }
            }
            let exact = Dy::int((n - 1) as i128).mul(&Dy::from_f64(q));
            let fl = Dy::from_f64((n - 1) as f64 * q);
            if exact.is_int() && fl.is_int() {
                for si in 1..5 {
                    if ALL_ST[si] == St::Linear && lin_unjudged {
                        continue;
                    }
                    if let Some(v) = table[si][j] {
                        acc.count("relations_checked");
                        if v != lo {
                            acc.violation("law_coincide", None, J::obj(vec![("what", J::s(format!("(N-1)q is integral but Lower = {} and {:?} = {}", lo.show(), ALL_ST[si], v.show()))), ("case", cj(q, ALL_ST[si]))]));
                            return;
                        }
                    }
                }
            }
        }
    }
    // (5) permutation invariance (all permutations for n <= 6 on a few q, sampled above)
    let qsel: Vec<f64> = (0..4).map(|_| *rng.pick(&grid)).collect();
    let perms: Vec<Vec<usize>> = if n <= 6 {
        let mut ps = vec![];
        let mut p: Vec<usize> = (0..n).collect();
        heap_perms(&mut p, n, &mut ps);
        ps
    } else {
        (0..12)
            .map(|_| {
                let mut p: Vec<usize> = (0..n).collect();
                rng.shuffle(&mut p);
                p
            })
            .collect()
    };
    if n <= 6 {
        acc.count("lanes_with_all_permutations");
    }
    for st in ALL_ST {
        if st == St::Linear && lin_unjudged {
            continue;
        }
        for &q in &qsel {
            let base = scalar(&q1d(&data, &lay, q, st, Pivots::First));
            acc.eval();
            for p in &perms {
                let pd: Vec<A> = p.iter().map(|&i| data[i]).collect();
                let r = scalar(&q1d(&pd, &lay, q, st, pick_policy(rng)));
                acc.eval();
                acc.count("relations_checked");
                if r != base {
                    acc.violation("law_permutation", if interp(st) { cls } else { None }, J::obj(vec![("what", J::s(format!("permuting the lane changed the result: {:?} vs {:?}; permuted lane {:?}", base.map(|x| x.show()), r.map(|x| x.show()), pd.iter().map(|x| x.show()).collect::<Vec<_>>()))), ("case", cj(q, st))]));
                    return;
                }
            }
        }
    }
    // (6) commutes with strictly increasing relabelling (selecting strategies), via ranks
    {
        let mut distinct: Vec<A> = data.clone();
        distinct.sort();
        distinct.dedup();
        // phi: value -> rank * 7 - 3 (strictly increasing), applied in i64 then into the type via from_small
        let phi = |x: &A| -> A { A::from_small(distinct.binary_search(x).unwrap() as i64 * 2 - (distinct.len() as i64)) };
        // guard: from_small clamps; only valid if strictly increasing after clamping
        let img: Vec<A> = distinct.iter().map(|x| phi(x)).collect();
        if img.windows(2).all(|w| w[0] < w[1]) {
            let mapped: Vec<A> = data.iter().map(|x| phi(x)).collect();
            for st in [St::Lower, St::Higher, St::Nearest] {
                for &q in &qsel {
                    let a = scalar(&q1d(&data, &lay, q, st, pick_policy(rng)));
                    let b = scalar(&q1d(&mapped, &lay, q, st, pick_policy(rng)));
                    acc.evals += 2;
                    acc.count("relations_checked");
                    if a.map(|x| phi(&x)) != b {
                        acc.violation("law_relabel", None, J::obj(vec![("what", J::s(format!("Q(phi(data)) = {:?} but phi(Q(data)) = {:?}", b.map(|x| x.show()), a.map(|x| phi(&x).show())))), ("case", cj(q, st))]));
                        return;
                    }
                }
            }
        }
    }
    if n >= 2 {
        acc.nontrivial(h64(&(A::NAME, &lay, data.iter().map(|x| x.bits()).collect::<Vec<_>>())));
    }
    acc.sample(|| J::obj(vec![("elem", J::s(A::NAME)), ("data", show_vec(&data)), ("layout", lay.to_json()), ("q_grid_len", J::u(grid.len()))]));
}

/// order laws lane by lane on n-D arrays through the bulk per-axis entry point (every axis of 2..4-D arrays)
fn c19_nd_case<A: QElem>(rng: &mut Rng, acc: &mut Acc) {
    let mut c = gen_case::<A>(rng, 12);
    if c.shape.len() == 1 {
        // make it at least 2-D
        c.shape = vec![1 + rng.below(3), c.shape[0].min(12)];
        c.axis = rng.below(2);
        let total: usize = c.shape.iter().product();
        c.data = gen_lane_values::<A>(rng, total);
        c.layout = Layout::random(2, rng);
    }
    let n = c.shape[c.axis];
    let mut qs: Vec<f64> = vec![0.0, 1.0];
    for _ in 0..6 {
        qs.push(gen_q(rng, n));
    }
    qs.sort_by(|a, b| a.partial_cmp(b).unwrap());
    let lanes = lanes_of(&c.shape, c.axis);
    let f7 = lanes.iter().any(|l| f7_possible(&l.iter().map(|&i| c.data[i]).collect::<Vec<_>>()));
    for st in ALL_ST {
        if st == St::Linear && wide_linear_unjudged(&c.data) {
            continue;
        }
        let kc = if (st == St::Midpoint || st == St::Linear) && f7 { Some("F7") } else { None };
        let out = exec(&c, Ep::AxisBulk, &qs, st, pick_policy(rng));
        acc.eval();
        let res = match &out {
            Out::Ok(r) => r,
            other => {
                acc.violation("law_total", kc, J::obj(vec![("what", J::s(format!("valid bulk call failed: {:?}", other))), ("case", case_json(&c, Ep::AxisBulk, &qs, st))]));
                return;
            }
        };
        let want = expected_shape(&c.shape, c.axis, Ep::AxisBulk, qs.len());
        if res.shape() != &want[..] {
            acc.violation("law_shape", None, J::obj(vec![("what", J::s(format!("result shape {:?}, expected {:?}", res.shape(), want))), ("case", case_json(&c, Ep::AxisBulk, &qs, st))]));
            return;
        }
        for (li, l) in lanes.iter().enumerate() {
            let vals: Vec<A> = l.iter().map(|&i| c.data[i]).collect();
            let mn = *vals.iter().min().unwrap();
            let mx = *vals.iter().max().unwrap();
            let sl = if A::FLOAT && (st == St::Midpoint || st == St::Linear) { ulp_slack(&mn, &mx) } else { Dy::int(0) };
            let mut prev: Option<A> = None;
            for (j, &q) in qs.iter().enumerate() {
                let v = *result_elem(res, &c.shape, c.axis, Ep::AxisBulk, li, j);
                acc.count("relations_checked");
                let bad = v.dy().lt(&mn.dy().sub(&sl)) || mx.dy().add(&sl).lt(&v.dy()) || (q == 0.0 && v != mn) || (q == 1.0 && v != mx) || prev.map(|p| !p.dy().le(&v.dy().add(&sl))).unwrap_or(false);
                if bad {
                    acc.violation("law_lane_nd", kc, J::obj(vec![("what", J::s(format!("lane {} (min {}, max {}): Q({:e}) = {} after {:?}", li, mn.show(), mx.show(), q, v.show(), prev.map(|p| p.show())))), ("case", case_json(&c, Ep::AxisBulk, &qs, st))]));
                    return;
                }
                prev = Some(v);
            }
        }
    }
    if n >= 2 {
        acc.nontrivial(h64(&(A::NAME, "nd", &c.shape, c.axis, &c.layout, c.data.iter().map(|x| x.bits()).collect::<Vec<_>>())));
    }
}

/// order laws on the NaN-skipping entry point (f64 with NaNs, Option<N64> with Nones), lane by lane
fn c19_skipnan_case(rng: &mut Rng, acc: &mut Acc, use_option: bool) {
    let nd = 1 + rng.below(3);
    let axis = rng.below(nd);
    let mut shape: Vec<usize> = (0..nd).map(|_| 1 + rng.below(3)).collect();
    shape[axis] = 1 + rng.below(10);
    let total: usize = shape.iter().product();
    let vals: Vec<Option<f64>> = (0..total).map(|_| if rng.chance(0.25) { None } else { Some(rng.range(-40, 40) as f64 * 0.3 + rng.range(0, 3) as f64 * 0.01) }).collect();
    let lay = Layout::random(nd, rng);
    let mut qs: Vec<f64> = vec![0.0, 1.0];
    for _ in 0..5 {
        qs.push(gen_q(rng, shape[axis]));
    }
    qs.sort_by(|a, b| a.partial_cmp(b).unwrap());
    let lanes = lanes_of(&shape, axis);
    let mut rem = shape.clone();
    rem.remove(axis);
    // table[strategy][q] = per-lane Option<f64>
    let mut table: Vec<Vec<Vec<Option<f64>>>> = vec![];
    for st in ALL_ST {
        let mut row = vec![];
        for &q in &qs {
            set_pivots(pick_policy(rng));
            acc.eval();
            let r: Result<Vec<Option<f64>>, String> = if use_option {
                let data: Vec<Option<N64>> = vals.iter().map(|v| v.map(n64)).collect();
                let mut e = Embedded::new(&shape, &data, lay.clone());
                let mut v = e.view_mut();
                let out = catch(|| match st {
                    St::Lower => v.quantile_axis_skipnan_mut(Axis(axis), n64(q), &Lower),
                    St::Higher => v.quantile_axis_skipnan_mut(Axis(axis), n64(q), &Higher),
                    St::Nearest => v.quantile_axis_skipnan_mut(Axis(axis), n64(q), &Nearest),
                    St::Midpoint => v.quantile_axis_skipnan_mut(Axis(axis), n64(q), &Midpoint),
                    St::Linear => v.quantile_axis_skipnan_mut(Axis(axis), n64(q), &Linear),
                });
                match out {
                    Ok(Ok(a)) if a.shape() == &rem[..] => Ok((0..lanes.len()).map(|li| a[IxDyn(&unravel(li, &rem))].map(|x| x.raw())).collect()),
                    other => Err(format!("{:?}", other.map(|r| r.map(|a| a.shape().to_vec())))),
                }
            } else {
                let data: Vec<f64> = vals.iter().map(|v| v.unwrap_or(f64::NAN)).collect();
                let mut e = Embedded::new(&shape, &data, lay.clone());
                let mut v = e.view_mut();
                let out = catch(|| match st {
                    St::Lower => v.quantile_axis_skipnan_mut(Axis(axis), n64(q), &Lower),
                    St::Higher => v.quantile_axis_skipnan_mut(Axis(axis), n64(q), &Higher),
                    St::Nearest => v.quantile_axis_skipnan_mut(Axis(axis), n64(q), &Nearest),
                    St::Midpoint => v.quantile_axis_skipnan_mut(Axis(axis), n64(q), &Midpoint),
                    St::Linear => v.quantile_axis_skipnan_mut(Axis(axis), n64(q), &Linear),
                });
                match out {
                    Ok(Ok(a)) if a.shape() == &rem[..] => Ok((0..lanes.len()).map(|li| {
                        let x = a[IxDyn(&unravel(li, &rem))];
                        if x.is_nan() { None } else { Some(x) }
                    }).collect()),
                    other => Err(format!("{:?}", other.map(|r| r.map(|a| a.shape().to_vec())))),
                }
            };
            match r {
                Ok(v) => row.push(v),
                Err(m) => {
                    acc.violation("law_total", None, J::obj(vec![("what", J::s(format!("quantile_axis_skipnan_mut failed or returned a wrong shape: {}", m))), ("shape", J::us(&shape)), ("axis", J::u(axis)), ("strategy", J::s(format!("{:?}", st))), ("q", J::F(q))]));
                    return;
                }
            }
        }
        table.push(row);
    }
    let cj = |what: String, li: usize| J::obj(vec![("elem", J::s(if use_option { "Option<N64>" } else { "f64" })), ("shape", J::us(&shape)), ("axis", J::u(axis)), ("layout", lay.to_json()), ("lane", J::A(lanes[li].iter().map(|&i| match vals[i] { Some(x) => J::F(x), None => J::s("NA") }).collect())), ("qs", J::A(qs.iter().map(|q| J::F(*q)).collect())), ("what", J::s(what))]);
    for (li, l) in lanes.iter().enumerate() {
        let present: Vec<f64> = l.iter().filter_map(|&i| vals[i]).collect();
        if present.is_empty() {
            for si in 0..5 {
                for j in 0..qs.len() {
                    if table[si][j][li].is_some() {
                        acc.violation("law_skipnan", None, cj("a lane without non-missing elements gave a value".into(), li));
                        return;
                    }
                }
            }
            continue;
        }
        let mn = present.iter().cloned().fold(f64::INFINITY, f64::min);
        let mx = present.iter().cloned().fold(f64::NEG_INFINITY, f64::max);
        let slack = 4.0 * f64::EPSILON * mn.abs().max(mx.abs());
        for j in 0..qs.len() {
            let get = |si: usize| table[si][j][li];
            let (lo, hi) = match (get(0), get(1)) {
                (Some(a), Some(b)) => (a, b),
                _ => {
                    acc.violation("law_skipnan", None, cj("a lane with non-missing elements gave the missing value".into(), li));
                    return;
                }
            };
            for si in 0..5 {
                acc.count("relations_checked");
                let v = match get(si) {
                    Some(v) => v,
                    None => {
                        acc.violation("law_skipnan", None, cj(format!("{:?} gave the missing value", ALL_ST[si]), li));
                        return;
                    }
                };
                let sl = if si >= 3 { slack } else { 0.0 };
                let bad = v < lo - sl || v > hi + sl || v < mn - sl || v > mx + sl || (qs[j] == 0.0 && v != mn) || (qs[j] == 1.0 && v != mx) || (j > 0 && table[si][j - 1][li].map(|p| p > v + sl).unwrap_or(false));
                if bad {
                    acc.violation("law_skipnan", None, cj(format!("{:?}: Q({:e}) = {:e} with Lower = {:e}, Higher = {:e}, lane min {:e}, max {:e}, previous {:?}", ALL_ST[si], qs[j], v, lo, hi, mn, mx, if j > 0 { table[si][j - 1][li] } else { None }), li));
                    return;
                }
            }
        }
    }
    acc.nontrivial(h64(&(use_option, &shape, axis, &lay, vals.iter().map(|v| v.map(|x| x.to_bits())).collect::<Vec<_>>())));
}

fn heap_perms(p: &mut Vec<usize>, k: usize, out: &mut Vec<Vec<usize>>) {
    if k <= 1 {
        out.push(p.clone());
        return;
    }
    for i in 0..k {
        heap_perms(p, k - 1, out);
        if k % 2 == 0 {
            p.swap(i, k - 1);
        } else {
            p.swap(0, k - 1);
        }
    }
}

macro_rules! by_type {
    ($k:expr, $f:ident, $($arg:expr),*) => {
        match $k % 9 {
            0 => $f::<i8>($($arg),*),
            1 => $f::<u8>($($arg),*),
            2 => $f::<i16>($($arg),*),
            3 => $f::<i32>($($arg),*),
            4 => $f::<i64>($($arg),*),
            5 => $f::<u64>($($arg),*),
            6 => $f::<usize>($($arg),*),
            7 => $f::<N32>($($arg),*),
            _ => $f::<N64>($($arg),*),
        }
    };
}

fn main() {
    let args = Args::parse();
    let prop = args.prop.clone();
    let thorough = args.thorough();
    let r = Runner::new(args);
    if prop == "C01" {
        r.section("random", r.args.n(60_000, 3_000_000), |k, rng, acc| {
            by_type!(k, c01_case, rng, acc);
        });
        let mut pats = vec![];
        for n in 1..=(if thorough { 5 } else { 4 }) {
            pats.extend(weak_orders(n));
        }
        r.section("lanes_all_pivots", (pats.len() * 3) as u64, |k, _rng, acc| {
            let pat = &pats[k as usize / 3];
            match k % 3 {
                0 => c01_exh::<i32>(pat, acc),
                1 => c01_exh::<u8>(pat, acc),
                _ => c01_exh::<N64>(pat, acc),
            }
            acc.sample(|| J::obj(vec![("op", J::s("quantile_mut, 5 strategies x q grid around every k/(N-1) and (k+.5)/(N-1), all pivot sequences")), ("pattern", J::A(pat.iter().map(|&x| J::I(x as i128)).collect()))]));
        });
    }
    if prop == "C18" {
        r.section("quantiles_bulk_vs_single", r.args.n(12_000, 600_000), |k, rng, acc| {
            by_type!(k, c18_case, rng, acc);
        });
        r.section("selection_bulk_vs_single", r.args.n(10_000, 500_000), |_k, rng, acc| {
            c18_select(rng, acc);
        });
    }
    if prop == "C19" {
        r.section("laws", r.args.n(1_500, 80_000), |k, rng, acc| {
            by_type!(k, c19_case, rng, acc);
        });
        r.section("laws_nd", r.args.n(4_000, 200_000), |k, rng, acc| {
            by_type!(k, c19_nd_case, rng, acc);
        });
        r.section("laws_skipnan", r.args.n(2_000, 100_000), |k, rng, acc| {
            c19_skipnan_case(rng, acc, k % 2 == 0);
        });
    }
    r.finish("quant", vec![]);
}
