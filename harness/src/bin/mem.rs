//! Driver `mem`: memory-level monitors (also the binary run under Miri, ASan, memcheck).
//!   C03  in-place routines only permute the lanes they were given
//!   C04  NaN-stripped views are sound for every stride and element type
//!   C14  NaN-skipping operations equal the plain operation on the filtered data
#![allow(clippy::all)]
use ndarray::prelude::*;
use ndarray::IxDyn;
use ndarray_stats::interpolate::{Higher, Linear, Lower, Midpoint, Nearest};
use ndarray_stats::{MaybeNan, MaybeNanExt, Quantile1dExt, QuantileExt, Sort1dExt};
use noisy_float::types::{n64, N32, N64};
use std::collections::{BTreeMap, HashSet};
use vharness::*;

// ---------------------------------------------------------------------------
// element types with a missing value
// ---------------------------------------------------------------------------
trait Miss: Elem + MaybeNan + Send + Sync
where
    Self::NotNan: Ord + Clone,
{
    const IS_FLOAT: bool;
    /// the element type of "the same data with the missing values deleted" (i32 for Option<i32>, N64 for f64)
    type Plain: Ord + Clone + Elem + num_traits::FromPrimitive + num_traits::ToPrimitive + num_traits::NumOps;
    /// the plain value of a non-missing element
    fn to_plain(&self) -> Self::Plain;
    /// a non-missing value, distinct for distinct i (as far as the type allows)
    fn val(i: usize) -> Self;
    fn missing(i: usize) -> Self;
    /// non-missing values at the edges of the type (infinities, extremes, integers beyond 2^24 / 2^53)
    fn special(j: usize) -> Self;
    /// missing-ness read off the representation, independent of the crate
    fn raw_missing(&self) -> bool;
    /// bits of a value handed out as NotNan, read as the underlying type
    fn nn_bits(x: &Self::NotNan) -> (u8, u128) {
        let p = x as *const Self::NotNan as *const Self;
        // same size/alignment: NotNan is a transparent wrapper of Self
        unsafe { (*p).bits() }
    }
}

impl Miss for f64 {
    const IS_FLOAT: bool = true;
    type Plain = N64;
    fn to_plain(&self) -> N64 {
        N64::unchecked_new(*self)
    }
    fn val(i: usize) -> Self {
        (i as f64) * 0.5 - 7.25
    }
    fn special(j: usize) -> Self {
        [f64::INFINITY, f64::NEG_INFINITY, f64::MAX, -f64::MAX, f64::MIN_POSITIVE, -1.5e-300, 5e-324, 1e300][j % 8]
    }
    fn missing(i: usize) -> Self {
        // quiet and signaling NaNs, both signs, distinct payloads
        let quiet = if i % 3 == 2 { 0 } else { 0x0008_0000_0000_0000u64 };
        f64::from_bits(0x7ff0_0000_0000_0000 | quiet | (i as u64 + 1) | if i % 2 == 1 { 1 << 63 } else { 0 })
    }
    fn raw_missing(&self) -> bool {
        let b = self.to_bits();
        (b >> 52) & 0x7ff == 0x7ff && b & ((1u64 << 52) - 1) != 0
    }
}
impl Miss for f32 {
    const IS_FLOAT: bool = true;
    type Plain = N32;
    fn to_plain(&self) -> N32 {
        N32::unchecked_new(*self)
    }
    fn val(i: usize) -> Self {
        (i as f32) * 0.5 - 7.25
    }
    fn special(j: usize) -> Self {
        [f32::INFINITY, f32::NEG_INFINITY, f32::MAX, -f32::MAX, f32::MIN_POSITIVE, -1.5e-30, 1e-45, 1e30][j % 8]
    }
    fn missing(i: usize) -> Self {
        let quiet = if i % 3 == 2 { 0 } else { 0x0040_0000u32 };
        f32::from_bits(0x7f80_0000 | quiet | ((i as u32 + 1) & 0xffff) | if i % 2 == 1 { 1 << 31 } else { 0 })
    }
    fn raw_missing(&self) -> bool {
        let b = self.to_bits();
        (b >> 23) & 0xff == 0xff && b & ((1u32 << 23) - 1) != 0
    }
}
macro_rules! miss_opt_int {
    ($($t:ident),*) => {$(
        impl Miss for Option<$t> {
            const IS_FLOAT: bool = false;
            type Plain = $t;
            fn to_plain(&self) -> $t { self.unwrap() }
            fn val(i: usize) -> Self {
                // spread over the type, wrap for narrow types
                Some(((i as i128 * 7 - 20) as u128 % ($t::MAX as u128 - 3)) as $t)
            }
            fn missing(_i: usize) -> Self { None }
            fn special(j: usize) -> Self {
                let big: i128 = [16_777_217, 16_777_220, 16_777_219, (1i128 << 40) + 1, (1i128 << 52) - 1, (1i128 << 53) + 1][j % 6];
                let v: i128 = match j % 5 {
                    0 => $t::MAX as i128,
                    1 => $t::MIN as i128,
                    2 => ($t::MAX as i128) - 1,
                    _ => if big <= $t::MAX as i128 { if j % 2 == 0 || ($t::MIN as i128) == 0 { big } else { -big } } else { ($t::MAX as i128) / 3 },
                };
                Some(v as $t)
            }
            fn raw_missing(&self) -> bool { matches!(self, None) }
        }
    )*};
}
miss_opt_int!(u8, u16, u32, u64, u128, i8, i16, i32, i64, i128);
impl Miss for Option<N64> {
    const IS_FLOAT: bool = false;
    type Plain = N64;
    fn to_plain(&self) -> N64 {
        self.unwrap()
    }
    fn val(i: usize) -> Self {
        Some(n64((i as f64) * 0.25 - 3.0))
    }
    fn special(j: usize) -> Self {
        Some(n64(<f64 as Miss>::special(j)))
    }
    fn missing(_i: usize) -> Self {
        None
    }
    fn raw_missing(&self) -> bool {
        matches!(self, None)
    }
}
impl Miss for Option<N32> {
    const IS_FLOAT: bool = false;
    type Plain = N32;
    fn to_plain(&self) -> N32 {
        self.unwrap()
    }
    fn val(i: usize) -> Self {
        Some(N32::new((i as f32) * 0.25 - 3.0))
    }
    fn special(j: usize) -> Self {
        Some(N32::new(<f32 as Miss>::special(j)))
    }
    fn missing(_i: usize) -> Self {
        None
    }
    fn raw_missing(&self) -> bool {
        matches!(self, None)
    }
}

fn lay1(step: isize, pad_b: usize, pad_a: usize) -> Layout {
    Layout { perm: vec![0], step: vec![step], pad_b: vec![pad_b], pad_a: vec![pad_a] }
}

fn multiset(v: &[(u8, u128)]) -> Vec<(u8, u128)> {
    let mut x = v.to_vec();
    x.sort_unstable();
    x
}

fn mask_json(mask: &[bool]) -> J {
    J::s(mask.iter().map(|&m| if m { 'x' } else { '.' }).collect::<String>())
}

// ---------------------------------------------------------------------------
// C04 core: one remove_nan_mut call, fully judged
// ---------------------------------------------------------------------------
struct Removed {
    len: usize,
    stride: isize,
    /// offset of the first element from the parent base, in elements
    first: isize,
    vals: Vec<(u8, u128)>,
}

/// Runs `T::remove_nan_mut` on the 1-D view described by (data, layout).
/// Returns Err(description) on a violation.
fn remove_observed<T: Miss>(data: &[T], lay: &Layout) -> Result<Removed, (String, String)>
where
    T::NotNan: Ord + Clone,
{
    let n = data.len();
    let mut e = Embedded::new(&[n], data, lay.clone());
    let before = e.parent_bits();
    let inview = e.in_view_mask();
    let sz = std::mem::size_of::<T>() as isize;
    let base = e.parent.as_ptr() as isize;
    let addrs: HashSet<isize> = e.pos.iter().map(|&p| base + p as isize * sz).collect();
    let parent_len = e.parent.len() as isize;
    let expected: Vec<(u8, u128)> = data.iter().filter(|x| !x.raw_missing()).map(|x| x.bits()).collect();
    let mut handed: Vec<(u8, u128)> = vec![];
    let (ptr, len, stride) = {
        let v = e.view_mut().into_dimensionality::<Ix1>().unwrap();
        let r = match catch(|| T::remove_nan_mut(v)) {
            Ok(r) => r,
            Err(m) => return Err(("no_panic".into(), format!("remove_nan_mut panicked: {}", m))),
        };
        let ptr = r.as_ptr() as isize;
        let len = r.len();
        let stride = if len > 1 { r.strides()[0] } else { 0 };
        // address-subset check BEFORE anything reads through the returned view
        let mut addr_ok = true;
        for k in 0..len as isize {
            if !addrs.contains(&(ptr + k * stride * sz)) {
                addr_ok = false;
            }
        }
        if addr_ok {
            // only now is it sound for the harness itself to iterate the view
            for x in r.iter() {
                handed.push(T::nn_bits(x));
            }
        }
        (ptr, len, stride)
    };
    if len != expected.len() {
        return Err(("length".into(), format!("returned view has length {}, the input has {} non-missing elements", len, expected.len())));
    }
    let mut vals = vec![];
    for k in 0..len as isize {
        let a = ptr + k * stride * sz;
        if !addrs.contains(&a) {
            let rel = (a - base) / sz;
            let inside = a >= base && rel < parent_len;
            return Err((
                "aliasing".into(),
                format!("element {} of the returned view lies at parent offset {} which is not an element of the argument view ({} the parent allocation); returned stride {}", k, rel, if inside { "inside" } else { "OUTSIDE" }, stride),
            ));
        }
        let idx = ((a - base) / sz) as usize;
        let x = &e.parent_slice()[idx];
        if x.raw_missing() {
            return Err(("missing_in_view".into(), format!("element {} of the returned view is a missing value", k)));
        }
        vals.push(x.bits());
    }
    if multiset(&vals) != multiset(&expected) {
        return Err(("multiset".into(), "the returned elements are not the non-missing input elements".into()));
    }
    if handed != vals {
        return Err(("handed_out".into(), "iterating the returned view yields other values than its memory holds".into()));
    }
    // whole lane still the same multiset (missing values included), guards untouched
    let after = e.parent_bits();
    let lane_b: Vec<(u8, u128)> = e.pos.iter().map(|&p| before[p]).collect();
    let lane_a: Vec<(u8, u128)> = e.pos.iter().map(|&p| after[p]).collect();
    if multiset(&lane_a) != multiset(&lane_b) {
        return Err(("lane_multiset".into(), "the input lane no longer holds the same multiset (missing values included)".into()));
    }
    for p in 0..before.len() {
        if !inview[p] && before[p] != after[p] {
            return Err(("guards".into(), format!("parent cell {} outside the view was modified", p)));
        }
    }
    Ok(Removed { len, stride, first: (ptr - base) / sz, vals })
}

fn c04_mask<T: Miss>(acc: &mut Acc, mask: &[bool], lay: &Layout)
where
    T::NotNan: Ord + Clone,
{
    let n = mask.len();
    let data: Vec<T> = (0..n).map(|i| if mask[i] { T::missing(i) } else { T::val(i) }).collect();
    acc.eval();
    let cj = |what: String| J::obj(vec![("op", J::s("MaybeNan::remove_nan_mut")), ("elem", J::s(T::NAME)), ("mask", mask_json(mask)), ("layout", lay.to_json()), ("what", J::s(what))]);
    // try_as_not_nan / is_nan agree with the representation
    for x in &data {
        let miss = x.raw_missing();
        if x.is_nan() != miss || x.try_as_not_nan().is_some() == miss {
            acc.violation("try_as_not_nan", None, cj(format!("is_nan / try_as_not_nan disagree with the representation for {}", x.show())));
            return;
        }
    }
    let r1 = match remove_observed::<T>(&data, lay) {
        Ok(r) => r,
        Err((mon, what)) => {
            let cls = f1_class::<T>(lay.step[0], mask.iter().filter(|&&m| !m).count());
            acc.violation(&mon, cls, cj(what));
            return;
        }
    };
    // determinism
    match remove_observed::<T>(&data, lay) {
        Ok(r2) => {
            if r2.vals != r1.vals || r2.len != r1.len || r2.stride != r1.stride || r2.first != r1.first {
                acc.violation("determinism", None, cj("two identical inputs gave different views".into()));
                return;
            }
        }
        Err((mon, what)) => {
            acc.violation(&mon, None, cj(what));
            return;
        }
    }
    // idempotence: the stripped sequence, stripped again, is unchanged
    let stripped: Vec<T> = {
        // rebuild values from bits by position lookup in data
        let mut m: BTreeMap<(u8, u128), T> = BTreeMap::new();
        for x in &data {
            m.insert(x.bits(), x.clone());
        }
        r1.vals.iter().map(|b| m[b].clone()).collect()
    };
    match remove_observed::<T>(&stripped, lay) {
        Ok(r3) => {
            if r3.vals != r1.vals {
                acc.violation("idempotence", None, cj("applying the removal to its own output changed the sequence".into()));
                return;
            }
        }
        Err((mon, what)) => {
            acc.violation(&mon, f1_class::<T>(lay.step[0], stripped.len()), cj(format!("(second application) {}", what)));
            return;
        }
    }
    acc.evals += 2;
}

/// Known-finding class F1 predicate (kept for the record; F1 is repaired, so
/// this returns None and any recurrence is reported as a new violation).
fn f1_class<T: Miss>(_stride: isize, _remaining: usize) -> Option<&'static str>
where
    T::NotNan: Ord + Clone,
{
    None
}

const C04_LAYOUTS: [(isize, usize, usize); 18] = [
    (1, 0, 0), (1, 1, 0), (1, 3, 1),
    (2, 0, 0), (2, 1, 1), (2, 3, 0),
    (3, 0, 0), (3, 1, 2), (3, 3, 1),
    (-1, 0, 0), (-1, 1, 1), (-1, 3, 0),
    (-2, 0, 0), (-2, 1, 0), (-2, 3, 2),
    (-3, 0, 0), (-3, 1, 1), (-3, 3, 3),
];

fn c04_all_masks<T: Miss>(acc: &mut Acc, len: usize, layouts: &[(isize, usize, usize)])
where
    T::NotNan: Ord + Clone,
{
    for m in 0u32..(1u32 << len) {
        let mask: Vec<bool> = (0..len).map(|b| m >> b & 1 == 1).collect();
        for &(s, pb, pa) in layouts {
            c04_mask::<T>(acc, &mask, &lay1(s, pb, pa));
            if len >= 2 {
                acc.exact_nontrivial += 1;
            }
        }
    }
    acc.count(&format!("elem_{}", T::NAME));
}

macro_rules! by_miss_type {
    ($k:expr, $f:ident, $($arg:expr),*) => {
        match $k % 14 {
            0 => $f::<f32>($($arg),*),
            1 => $f::<f64>($($arg),*),
            2 => $f::<Option<u8>>($($arg),*),
            3 => $f::<Option<u16>>($($arg),*),
            4 => $f::<Option<u32>>($($arg),*),
            5 => $f::<Option<u64>>($($arg),*),
            6 => $f::<Option<u128>>($($arg),*),
            7 => $f::<Option<i8>>($($arg),*),
            8 => $f::<Option<i16>>($($arg),*),
            9 => $f::<Option<i32>>($($arg),*),
            10 => $f::<Option<i64>>($($arg),*),
            11 => $f::<Option<i128>>($($arg),*),
            12 => $f::<Option<N32>>($($arg),*),
            _ => $f::<Option<N64>>($($arg),*),
        }
    };
}
macro_rules! by_lane_type {
    ($k:expr, $f:ident, $($arg:expr),*) => {
        match $k % 6 {
            0 => $f::<f64>($($arg),*),
            1 => $f::<Option<i32>>($($arg),*),
            2 => $f::<f32>($($arg),*),
            3 => $f::<Option<u8>>($($arg),*),
            4 => $f::<Option<i64>>($($arg),*),
            _ => $f::<Option<N64>>($($arg),*),
        }
    };
}

// ---------------------------------------------------------------------------
// n-D cases with missing values
// ---------------------------------------------------------------------------
#[derive(Clone)]
struct NCase<T> {
    shape: Vec<usize>,
    data: Vec<T>,
    axis: usize,
    layout: Layout,
}

fn gen_ncase<T: Miss>(rng: &mut Rng, small: bool) -> NCase<T>
where
    T::NotNan: Ord + Clone,
{
    let nd = *rng.pick(&[1usize, 2, 2, 3, 3]);
    let axis = rng.below(nd);
    let mx = if small { 3 } else { 5 };
    let mut shape: Vec<usize> = (0..nd).map(|_| 1 + rng.below(mx)).collect();
    shape[axis] = 1 + rng.below(if small { 5 } else { 12 });
    // now and then long lanes (18..60) consisting of a few values, a LONG RUN of missing values, and a few values
    let runs = !small && rng.chance(0.06);
    if runs {
        shape[axis] = 18 + rng.below(43);
        for a in 0..nd {
            if a != axis {
                shape[a] = 1 + rng.below(2);
            }
        }
    }
    // now and then an array without elements whose reduced axis is NOT empty (no lanes at all)
    if nd >= 2 && !small && rng.chance(0.03) {
        let other = (axis + 1 + rng.below(nd - 1)) % nd;
        shape[other] = 0;
    }
    let total: usize = shape.iter().product();
    let pmiss = *rng.pick(&[0.0, 0.15, 0.4, 0.8, 1.0]);
    let mut data: Vec<T> = (0..total).map(|i| if rng.chance(pmiss) { T::missing(i) } else { T::val(i) }).collect();
    if runs {
        for l in lanes_of(&shape, axis) {
            let (pre, suf) = (rng.below(4), rng.below(4));
            let n = l.len();
            for (j, &i) in l.iter().enumerate() {
                data[i] = if j < pre || j + suf >= n { T::val(i) } else { T::missing(i) };
            }
        }
    }
    match if runs { 7 } else { rng.below(8) } {
        0 => {
            // first-only / last-only missing in every lane
            for l in lanes_of(&shape, axis) {
                for (j, &i) in l.iter().enumerate() {
                    data[i] = if j == 0 { T::missing(i) } else { T::val(i) };
                }
            }
        }
        1 => {
            for l in lanes_of(&shape, axis) {
                let last = l.len() - 1;
                for (j, &i) in l.iter().enumerate() {
                    data[i] = if j == last { T::missing(i) } else { T::val(i) };
                }
            }
        }
        2 => {
            // ties: few distinct values
            for i in 0..total {
                if !data[i].raw_missing() {
                    data[i] = T::val(rng.below(3));
                }
            }
        }
        _ => {}
    }
    // one case in twelve: every non-missing value is a distinct integer beyond 2^24 (not representable in f32) and,
    // where the type allows, beyond 2^53 (interpolation of Option<int> lanes goes through floating point)
    if rng.chance(0.085) {
        for i in 0..total {
            if !data[i].raw_missing() {
                data[i] = T::special(3 + 5 * rng.below(9));
            }
        }
    }
    // a third of the cases carry values at the edges of the type (infinities, extremes, integers that are not
    // exactly representable in f32 / f64)
    if rng.chance(0.33) {
        for i in 0..total {
            if !data[i].raw_missing() && rng.chance(0.4) {
                data[i] = T::special(rng.below(48));
            }
        }
    }
    let layout = if rng.chance(0.15) { Layout::canonical(nd) } else { Layout::random(nd, rng) };
    NCase { shape, data, axis, layout }
}

fn ncase_json<T: Miss>(c: &NCase<T>, op: &str) -> J
where
    T::NotNan: Ord + Clone,
{
    J::obj(vec![
        ("op", J::s(op)),
        ("elem", J::s(T::NAME)),
        ("shape", J::us(&c.shape)),
        ("axis", J::u(c.axis)),
        ("layout", c.layout.to_json()),
        ("data", J::A(c.data.iter().take(80).map(|x| J::s(if x.raw_missing() { "NA".to_string() } else { x.show() })).collect())),
    ])
}

fn pick_policy(rng: &mut Rng) -> Pivots {
    match rng.below(5) {
        0 => Pivots::First,
        1 => Pivots::Last,
        2 => Pivots::Alternate,
        _ => Pivots::Seeded(rng.next()),
    }
}

#[derive(Clone, Copy, Debug, PartialEq)]
enum St {
    Lower,
    Higher,
    Nearest,
    Midpoint,
    Linear,
}

/// shadow-buffer judgement shared by C03 monitors: guards bit-identical and
/// every lane (along `axis`) holds the same multiset as before.
fn shadow_judge<T: Elem>(e: &Embedded<T>, before: &[(u8, u128)], inview: &[bool], lanes: &[Vec<usize>]) -> Result<(), (String, String)> {
    let after = e.parent_bits();
    for p in 0..before.len() {
        if !inview[p] && before[p] != after[p] {
            return Err(("guards".into(), format!("parent cell {} outside the view was modified", p)));
        }
    }
    for (li, l) in lanes.iter().enumerate() {
        let b: Vec<(u8, u128)> = l.iter().map(|&i| before[e.pos[i]]).collect();
        let a: Vec<(u8, u128)> = l.iter().map(|&i| after[e.pos[i]]).collect();
        if multiset(&a) != multiset(&b) {
            return Err(("lane_multiset".into(), format!("lane {} no longer holds the multiset it held before the call", li)));
        }
    }
    Ok(())
}

/// Address set (as element offsets from the parent base) of each lane.
fn lane_addr_sets<T: Elem>(e: &Embedded<T>, lanes: &[Vec<usize>]) -> Vec<HashSet<isize>> {
    lanes.iter().map(|l| l.iter().map(|&i| e.pos[i] as isize).collect()).collect()
}

// ---------------------------------------------------------------------------
// C04 / C03 / C14 on lanes handed out by map_axis_skipnan_mut
// ---------------------------------------------------------------------------
/// Calls map_axis_skipnan_mut with a closure that (1) checks the addresses of
/// the handed-out view against the lanes of the argument, (2) reads it,
/// (3) optionally sorts it in place (a writer).  Judges C04 (soundness of the
/// stripped views), C03 (shadow) and C14 (each lane exactly once, result at the
/// lane's logical index).
fn lanes_case<T: Miss>(rng: &mut Rng, acc: &mut Acc, prop: &str, small: bool)
where
    T::NotNan: Ord + Clone,
{
    let c = gen_ncase::<T>(rng, small);
    let write = rng.chance(0.6);
    acc.eval();
    acc.count(&format!("elem_{}", T::NAME));
    acc.count(&format!("layout_{}", c.layout.class()));
    acc.count(&format!("ndim_{}", c.shape.len()));
    let lanes = lanes_of(&c.shape, c.axis);
    let mut e = Embedded::new(&c.shape, &c.data, c.layout.clone());
    let before = e.parent_bits();
    let inview = e.in_view_mask();
    let sets = lane_addr_sets(&e, &lanes);
    let sz = std::mem::size_of::<T>() as isize;
    let base = e.parent.as_ptr() as isize;
    let plen = e.parent.len() as isize;
    // observation log of the closure: (lane id found by address, values, addr_ok)
    let mut seen: Vec<(Option<usize>, Vec<(u8, u128)>, bool, usize)> = vec![];
    let mut call_no = 0usize;
    let res = {
        let mut v = e.view_mut();
        catch(|| {
            v.map_axis_skipnan_mut(Axis(c.axis), |mut lane| {
                let ptr = lane.as_ptr() as isize;
                let len = lane.len();
                let stride = if len > 1 { lane.strides()[0] } else { 0 };
                let offs: Vec<isize> = (0..len as isize).map(|k| (ptr + k * stride * sz - base) / sz).collect();
                let exact: bool = (0..len as isize).all(|k| (ptr + k * stride * sz - base) % sz == 0);
                // which lane does it belong to (all addresses inside one lane's address set)?
                let lane_id = if len == 0 { None } else { sets.iter().position(|s| exact && offs.iter().all(|o| s.contains(o))) };
                let inside_parent = exact && offs.iter().all(|&o| o >= 0 && o < plen);
                let addr_ok = len == 0 || lane_id.is_some();
                let mut vals = vec![];
                if addr_ok {
                    for x in lane.iter() {
                        vals.push(T::nn_bits(x));
                    }
                }
                if write && inside_parent && len > 1 {
                    // a writer: sort the handed-out lane in place (reverse order to force movement)
                    let mut tmp: Vec<T::NotNan> = lane.iter().cloned().collect();
                    tmp.sort();
                    tmp.reverse();
                    for (d, s) in lane.iter_mut().zip(tmp.into_iter()) {
                        *d = s;
                    }
                }
                seen.push((lane_id, vals, addr_ok, len));
                call_no += 1;
                call_no - 1
            })
        })
    };
    let cj = |what: String| {
        let mut j = ncase_json(&c, "map_axis_skipnan_mut");
        if let J::O(kv) = &mut j {
            kv.push(("what".into(), J::s(what)));
            kv.push(("closure_writes".into(), J::B(write)));
        }
        j
    };
    let out = match res {
        Ok(o) => o,
        Err(m) => {
            acc.violation("no_panic", None, cj(format!("map_axis_skipnan_mut panicked: {}", m)));
            return;
        }
    };
    // C04: every handed-out view aliases only its own lane and holds exactly the lane's non-missing elements
    for (ci, (lane_id, vals, addr_ok, len)) in seen.iter().enumerate() {
        if !addr_ok {
            acc.violation("aliasing", None, cj(format!("closure call {} received a view of length {} whose elements are not elements of a single lane of the argument", ci, len)));
            return;
        }
        if *len == 0 {
            continue;
        }
        let li = lane_id.unwrap();
        let want: Vec<(u8, u128)> = lanes[li].iter().map(|&i| c.data[i].bits()).filter(|_| true).collect();
        let want: Vec<(u8, u128)> = lanes[li].iter().zip(want.iter()).filter(|(&i, _)| !c.data[i].raw_missing()).map(|(_, b)| *b).collect();
        if multiset(vals) != multiset(&want) {
            acc.violation("lane_content", None, cj(format!("closure call {}: the view handed out for lane {} does not hold exactly that lane's non-missing elements", ci, li)));
            return;
        }
    }
    // C14: each lane exactly once, result stored at the lane's logical index
    let mut rem = c.shape.clone();
    rem.remove(c.axis);
    if out.shape() != &rem[..] {
        acc.violation("shape", None, cj(format!("result shape {:?}, expected {:?}", out.shape(), rem)));
        return;
    }
    if seen.len() != lanes.len() {
        acc.violation("each_lane_once", None, cj(format!("closure called {} times for {} lanes", seen.len(), lanes.len())));
        return;
    }
    let mut visited = vec![0usize; lanes.len()];
    for (li, _) in lanes.iter().enumerate() {
        let idx = unravel(li, &rem);
        let call = out[IxDyn(&idx)];
        let (lane_id, _, _, len) = &seen[call];
        let nonmiss = lanes[li].iter().filter(|&&i| !c.data[i].raw_missing()).count();
        if *len != nonmiss {
            acc.violation("result_index", None, cj(format!("result at logical lane index {:?} comes from a view of length {}, that lane has {} non-missing elements", idx, len, nonmiss)));
            return;
        }
        if let Some(l) = lane_id {
            if *l != li {
                acc.violation("result_index", None, cj(format!("result stored at logical lane index {:?} was computed from lane {}", idx, l)));
                return;
            }
            visited[*l] += 1;
        }
    }
    // C03: shadow
    if let Err((mon, what)) = shadow_judge(&e, &before, &inview, &lanes) {
        acc.violation(&mon, None, cj(what));
        return;
    }
    let _ = prop;
    if c.shape[c.axis] >= 2 {
        acc.nontrivial(h64(&(T::NAME, &c.shape, c.axis, &c.layout, write, c.data.iter().map(|x| x.bits()).collect::<Vec<_>>())));
    }
    acc.sample(|| ncase_json(&c, "map_axis_skipnan_mut"));
}

// ---------------------------------------------------------------------------
// C03: shadow-buffer monitor around the mutating routines
// ---------------------------------------------------------------------------
/// The in-place routines on elements that own a resource (Drop, not Copy): besides "only permute the lanes"
/// (judged on the keys), no element may be destroyed while the array still holds it - the lifecycle monitor
/// reports an element dropped twice or used after its drop.
fn c03_owned(rng: &mut Rng, acc: &mut Acc) {
    let nd = *rng.pick(&[1usize, 1, 2, 2, 3]);
    let axis = rng.below(nd);
    let mut shape: Vec<usize> = (0..nd).map(|_| 1 + rng.below(3)).collect();
    let lmax = if rng.chance(0.1) { 40 } else { 9 };
    shape[axis] = 1 + rng.below(lmax);
    let total: usize = shape.iter().product();
    let alpha = *rng.pick(&[1i64, 2, 4, 100]);
    let keys: Vec<i64> = (0..total).map(|_| rng.range(0, alpha)).collect();
    let layout = if rng.chance(0.2) { Layout::canonical(nd) } else { Layout::random(nd, rng) };
    let lanes = lanes_of(&shape, axis);
    let n = shape[axis];
    let op = rng.below(7);
    let pol = pick_policy(rng);
    // fault injection: in a third of the cases the element's own comparison panics at its k-th call; the routine
    // is left by unwinding, and what it leaves behind must still be a permutation of every lane (an element
    // duplicated at that moment would also be dropped twice)
    let inject = if rng.chance(0.33) { 1 + rng.below(3 * n + 4) as u64 } else { 0 };
    life_reset();
    acc.eval();
    let opname;
    let mut injected_hit = false;
    let verdict: Result<(), (String, String)> = {
        let data: Vec<Res> = keys.iter().map(|&k| Res::new(k)).collect();
        let mut e = Embedded::new(&shape, &data, layout.clone());
        let before = e.parent_bits();
        let inview = e.in_view_mask();
        set_pivots(pol);
        life_panic_at(inject);
        let r: Result<(), String> = {
            let mut v = e.view_mut();
            match op {
                0 => {
                    opname = "quantiles_axis_mut";
                    let qa: Array1<N64> = (0..rng.below(5))
                        .map(|_| {
                            let u = rng.unit();
                            n64(*rng.pick(&[0.0, 1.0, 0.5, u]))
                        })
                        .collect();
                    let st = rng.below(3);
                    catch(|| {
                        match st {
                            0 => v.quantiles_axis_mut(Axis(axis), &qa, &Lower).map(|_| ()),
                            1 => v.quantiles_axis_mut(Axis(axis), &qa, &Nearest).map(|_| ()),
                            _ => v.quantiles_axis_mut(Axis(axis), &qa, &Higher).map(|_| ()),
                        }
                        .unwrap();
                    })
                }
                1 => {
                    opname = "quantile_axis_mut";
                    let q = n64(rng.unit());
                    catch(|| {
                        v.quantile_axis_mut(Axis(axis), q, &Lower).unwrap();
                    })
                }
                _ => {
                    // 1-D routines on the first lane, reached through a 1-D view of it
                    let mut lv = v.view_mut();
                    let mut cur = 0;
                    for a in 0..nd {
                        if a != axis {
                            lv.collapse_axis(Axis(cur), 0);
                        }
                        cur += 1;
                    }
                    let mut l1 = lv.into_dimensionality::<IxDyn>().unwrap();
                    // drop the collapsed axes (all of length 1 now)
                    for a in (0..nd).rev() {
                        if a != axis {
                            l1 = l1.index_axis_move(Axis(a), 0);
                        }
                    }
                    let mut l1 = l1.into_dimensionality::<Ix1>().unwrap();
                    match op {
                        2 => {
                            opname = "partition_mut";
                            let p = rng.below(n);
                            catch(|| {
                                l1.partition_mut(p);
                            })
                        }
                        3 => {
                            opname = "get_from_sorted_mut";
                            let i = rng.below(n);
                            catch(|| {
                                l1.get_from_sorted_mut(i);
                            })
                        }
                        4 => {
                            opname = "get_many_from_sorted_mut";
                            let m = rng.below(n + 3);
                            let req: Array1<usize> = (0..m).map(|_| rng.below(n)).collect();
                            catch(|| {
                                l1.get_many_from_sorted_mut(&req);
                            })
                        }
                        5 => {
                            opname = "quantile_mut";
                            let q = n64(rng.unit());
                            catch(|| {
                                l1.quantile_mut(q, &Higher).unwrap();
                            })
                        }
                        _ => {
                            opname = "quantiles_mut";
                            let qa: Array1<N64> = (0..rng.below(5)).map(|_| n64(rng.unit())).collect();
                            catch(|| {
                                l1.quantiles_mut(&qa, &Lower).unwrap();
                            })
                        }
                    }
                }
            }
        };
        life_panic_at(0);
        let after = e.parent_bits();
        let r = match r {
            Err(m) if inject > 0 && m.contains(INJECTED_PANIC) => {
                injected_hit = true;
                Ok(())
            }
            other => other,
        };
        match r {
            Err(m) => Err(("no_panic".to_string(), format!("panicked: {}", m))),
            Ok(()) => {
                if (0..before.len()).any(|c| !inview[c] && before[c] != after[c]) {
                    Err(("outside_view".to_string(), "a cell of the parent buffer outside the view changed".to_string()))
                } else {
                    let mut bad = None;
                    for (li, l) in lanes.iter().enumerate() {
                        let mut b: Vec<(u8, u128)> = l.iter().map(|&i| before[e.pos[i]]).collect();
                        let mut a: Vec<(u8, u128)> = l.iter().map(|&i| after[e.pos[i]]).collect();
                        b.sort();
                        a.sort();
                        if a != b {
                            bad = Some(li);
                            break;
                        }
                    }
                    match bad {
                        Some(li) => Err(("lane_multiset".to_string(), format!("lane {} does not hold its former keys", li))),
                        None => Ok(()),
                    }
                }
            }
        }
        // the array, the originals and every temporary are dropped here
    };
    let (_alive, events) = life_stats();
    acc.max("lifecycle_events_per_case", events as f64);
    acc.count(&format!("owned_op_{}", opname));
    if injected_hit {
        acc.count("owned_calls_left_by_an_injected_comparison_panic");
    }
    acc.count(&format!("layout_{}", layout.class()));
    let info = |what: String| J::obj(vec![("op", J::s(format!("{} on elements that own a resource", opname))), ("shape", J::us(&shape)), ("axis", J::u(axis)), ("layout", layout.to_json()), ("keys", J::A(keys.iter().map(|&x| J::I(x as i128)).collect())), ("injected_comparison_panic_at", J::u(inject as usize)), ("left_by_unwinding", J::B(injected_hit)), ("what", J::s(what))]);
    if let Some(f) = life_fault() {
        acc.violation("element_lifecycle", None, info(f));
    } else if let Err((mon, what)) = verdict {
        acc.violation(&mon, None, info(what));
    }
    if total >= 2 {
        acc.nontrivial(h64(&(&shape, axis, &layout, &keys, op, take_pivot_log())));
    }
    acc.sample(|| info("sample".into()));
}

/// The per-axis quantile routines called on an OWNED (or shared) array that is itself a slice of a larger
/// allocation: what the caller holds afterwards - shape, axis order, every lane - is judged through the array
/// itself, for successful and for erroring calls (an erroring call must leave the array exactly as it was).
fn c03_owned_arrays(rng: &mut Rng, acc: &mut Acc) {
    let nd = *rng.pick(&[1usize, 2, 2, 3, 3, 4]);
    let axis = rng.below(nd);
    let mut shape: Vec<usize> = (0..nd).map(|_| 1 + rng.below(4)).collect();
    shape[axis] = 1 + rng.below(7);
    // error kinds: 0 = none, 1 = invalid q, 2 = empty reduced axis
    let errk = *rng.pick(&[0usize, 0, 1, 1, 2]);
    if errk == 2 {
        shape[axis] = 0;
    }
    let total: usize = shape.iter().product();
    let alpha = *rng.pick(&[2usize, 4, 100]);
    let data: Vec<Tracked> = (0..total).map(|i| Tracked { key: rng.below(alpha) as u8, id: i as u16 }).collect();
    let layout = if rng.chance(0.15) { Layout::canonical(nd) } else { Layout::random(nd, rng) };
    let shared = rng.chance(0.3);
    let single = rng.chance(0.4);
    let mut qs: Vec<N64> = (0..if single { 1 } else { rng.below(4) }).map(|_| n64(rng.unit())).collect();
    if errk == 1 {
        if qs.is_empty() {
            qs.push(n64(0.5));
        }
        let j = rng.below(qs.len());
        qs[j] = n64(*rng.pick(&[-0.5, 1.5, 1.0 + 1e-9]));
    }
    let expect_err = errk == 1 || (errk == 2);
    let qa = Array1::from(qs.clone());
    set_pivots(pick_policy(rng));
    acc.eval();
    let e = Embedded::new(&shape, &data, layout.clone());
    let mut a = e.into_owned_sliced();
    let before: Vec<(u8, u16)> = a.iter().map(|t| (t.key, t.id)).collect();
    let (res, after_shape, after): (Result<bool, String>, Vec<usize>, Vec<(u8, u16)>) = if shared {
        let mut sh = a.into_shared();
        let keep = sh.clone();
        let r = catch(|| if single { sh.quantile_axis_mut(Axis(axis), qs[0], &Lower).is_err() } else { sh.quantiles_axis_mut(Axis(axis), &qa, &Higher).is_err() });
        let kept_ok = keep.shape() == &shape[..] && keep.iter().map(|t| (t.key, t.id)).collect::<Vec<_>>() == before;
        if !kept_ok {
            acc.violation("outside_view", None, J::obj(vec![("op", J::s("quantile(s)_axis_mut on a shared ArcArray")), ("shape", J::us(&shape)), ("what", J::s("the other handle changed"))]));
            return;
        }
        (r, sh.shape().to_vec(), sh.iter().map(|t| (t.key, t.id)).collect())
    } else {
        let r = catch(|| if single { a.quantile_axis_mut(Axis(axis), qs[0], &Lower).is_err() } else { a.quantiles_axis_mut(Axis(axis), &qa, &Nearest).is_err() });
        (r, a.shape().to_vec(), a.iter().map(|t| (t.key, t.id)).collect())
    };
    let info = |what: String| J::obj(vec![("op", J::s(if single { "quantile_axis_mut on an owned array" } else { "quantiles_axis_mut on an owned array" })), ("shape", J::us(&shape)), ("axis", J::u(axis)), ("layout", layout.to_json()), ("shared", J::B(shared)), ("qs", J::s(format!("{:?}", qs))), ("what", J::s(what))]);
    acc.count(if expect_err { "owned_array_erroring_calls" } else { "owned_array_successful_calls" });
    match res {
        Err(m) => {
            acc.violation("no_panic", None, info(format!("panicked: {}", m)));
            return;
        }
        Ok(was_err) => {
            if was_err != expect_err {
                acc.violation("no_panic", None, info(format!("call returned {} but {} was expected", if was_err { "an error" } else { "Ok" }, if expect_err { "an error" } else { "Ok" })));
                return;
            }
        }
    }
    if after_shape != shape {
        acc.violation("lane_multiset", None, info(format!("the caller's array has shape {:?} after the call (axes exchanged or resized)", after_shape)));
        return;
    }
    if expect_err {
        if after != before {
            acc.violation("erroring_call_modified", None, info("an erroring call changed the caller's array".into()));
        }
    } else {
        // logical flat positions of each lane (row-major over the logical shape)
        for (li, l) in lanes_of(&shape, axis).iter().enumerate() {
            let mut b: Vec<(u8, u16)> = l.iter().map(|&i| before[i]).collect();
            let mut c: Vec<(u8, u16)> = l.iter().map(|&i| after[i]).collect();
            b.sort();
            c.sort();
            if b != c {
                acc.violation("lane_multiset", None, info(format!("lane {} does not hold its former elements", li)));
                return;
            }
        }
    }
    if total >= 2 {
        acc.nontrivial(h64(&(&shape, axis, &layout, shared, single, errk, &before)));
    }
    acc.sample(|| info("sample".into()));
}

fn c03_tracked(rng: &mut Rng, acc: &mut Acc) {
    // n-D array of Tracked; routines: quantile(s)_axis_mut on the whole array; 1-D routines on one lane view
    let nd = *rng.pick(&[1usize, 2, 2, 3, 3, 4]);
    let axis = rng.below(nd);
    let mut shape: Vec<usize> = (0..nd).map(|_| 1 + rng.below(4)).collect();
    // one case in eight has long lanes (>= 32) with few other lanes
    let long = rng.chance(0.125);
    shape[axis] = if long { 32 + rng.below(40) } else { 1 + rng.below(14) };
    if long {
        for a in 0..nd {
            if a != axis {
                shape[a] = 1 + rng.below(3);
            }
        }
    }
    let total: usize = shape.iter().product();
    let alpha = *rng.pick(&[1usize, 2, 4, 100]);
    let data: Vec<Tracked> = (0..total).map(|i| Tracked { key: rng.below(alpha) as u8, id: i as u16 }).collect();
    let layout = if rng.chance(0.1) { Layout::canonical(nd) } else { Layout::random(nd, rng) };
    let lanes = lanes_of(&shape, axis);
    let mut e = Embedded::new(&shape, &data, layout.clone());
    let before = e.parent_bits();
    let inview = e.in_view_mask();
    let n = shape[axis];
    let op = rng.below(9);
    let opname;
    set_pivots(pick_policy(rng));
    acc.eval();
    let mut judged_lanes: Vec<Vec<usize>> = lanes.clone();
    let mut erroring = false;
    let res: Result<(), String> = {
        let mut v = e.view_mut();
        match op {
            0 | 1 => {
                opname = "quantiles_axis_mut";
                let nq = rng.below(5);
                let qmax = *rng.pick(&[1.0, 1.0, 0.5, 0.2]);
                let mut qs: Vec<N64> = (0..nq).map(|_| n64(rng.unit() * qmax)).collect();
                if nq >= 2 && rng.chance(0.2) {
                    // only the two extreme ranks of every lane
                    for q in qs.iter_mut() {
                        *q = n64(if rng.chance(0.5) { 0.0 } else { 1.0 });
                    }
                    qs[0] = n64(0.0);
                    qs[nq - 1] = n64(1.0);
                }
                if long && rng.chance(0.6) {
                    // dense request: (nearly) every rank of a long lane, in scrambled order, with several lanes
                    let keep = *rng.pick(&[1.0, 0.9, 0.8]);
                    qs = (0..n).filter(|_| rng.chance(keep)).map(|k| n64(k as f64 / (n - 1) as f64)).collect();
                    let mut qv = qs.clone();
                    rng.shuffle(&mut qv);
                    qs = qv;
                }
                let nq = qs.len();
                if op == 1 && nq > 0 {
                    // an erroring call must not modify anything
                    qs[nq - 1] = n64(*rng.pick(&[-0.5, 1.5, -1e-9, 1.0 + 1e-9]));
                    erroring = true;
                }
                let qa = Array1::from(qs);
                catch(|| {
                    let r = match rng.below(3) {
                        0 => v.quantiles_axis_mut(Axis(axis), &qa, &Lower).map(|_| ()),
                        1 => v.quantiles_axis_mut(Axis(axis), &qa, &Nearest).map(|_| ()),
                        _ => v.quantiles_axis_mut(Axis(axis), &qa, &Higher).map(|_| ()),
                    };
                    if erroring != r.is_err() {
                        panic!("VERIF unexpected result {:?}", r);
                    }
                })
            }
            2 => {
                opname = "quantile_axis_mut";
                let q = n64(rng.unit());
                catch(|| {
                    v.quantile_axis_mut(Axis(axis), q, &Higher).unwrap();
                })
            }
            3 | 4 | 5 | 6 | 7 => {
                // 1-D routine on ONE lane: every other lane must stay bit-identical
                let li = rng.below(lanes.len());
                let mut rem = shape.clone();
                rem.remove(axis);
                let lidx = unravel(li, &rem);
                let mut lv = v.view_mut();
                // walk down to the lane: index every axis except `axis`
                let mut j = 0;
                let mut cur_axis = 0;
                for a in 0..nd {
                    if a == axis {
                        cur_axis += 1;
                        continue;
                    }
                    lv.collapse_axis(Axis(cur_axis), lidx[j]);
                    j += 1;
                    cur_axis += 1;
                }
                let mut l1 = lv.into_shape_with_order(n).ok();
                // collapse_axis keeps dimensionality; into_shape may fail for non-contiguous: fall back to lanes iterator
                if l1.is_none() {
                    opname = "skip";
                    Ok(())
                } else {
                    let l1 = l1.as_mut().unwrap();
                    // all other lanes must be untouched: judge with singleton "lanes" for their cells
                    judged_lanes = vec![lanes[li].clone()];
                    for (oj, ol) in lanes.iter().enumerate() {
                        if oj != li {
                            for &c in ol {
                                judged_lanes.push(vec![c]);
                            }
                        }
                    }
                    match op {
                        3 => {
                            opname = "partition_mut";
                            let p = rng.below(n);
                            catch(|| {
                                l1.partition_mut(p);
                            })
                        }
                        4 => {
                            opname = "get_from_sorted_mut";
                            let i = rng.below(n);
                            catch(|| {
                                l1.get_from_sorted_mut(i);
                            })
                        }
                        5 => {
                            opname = "get_many_from_sorted_mut";
                            // request lists of length 0..n+2, with repeats; a fifth touch only the extreme ranks
                            let m = rng.below(n + 3);
                            let extremes = rng.chance(0.2);
                            let req: Array1<usize> = (0..m).map(|_| if extremes { if rng.chance(0.5) { 0 } else { n - 1 } } else { rng.below(n) }).collect();
                            catch(|| {
                                l1.get_many_from_sorted_mut(&req);
                            })
                        }
                        6 => {
                            opname = "quantile_mut";
                            let q = n64(rng.unit());
                            catch(|| {
                                l1.quantile_mut(q, &Lower).unwrap();
                            })
                        }
                        _ => {
                            opname = "quantiles_mut";
                            let qa: Array1<N64> = (0..rng.below(5)).map(|_| n64(rng.unit())).collect();
                            catch(|| {
                                l1.quantiles_mut(&qa, &Nearest).unwrap();
                            })
                        }
                    }
                }
            }
            _ => {
                opname = "quantile_axis_mut(invalid q)";
                erroring = true;
                let q = n64(*rng.pick(&[-0.25, 1.25]));
                catch(|| {
                    if v.quantile_axis_mut(Axis(axis), q, &Lower).is_ok() {
                        panic!("VERIF invalid q accepted");
                    }
                })
            }
        }
    };
    if opname == "skip" {
        acc.count("lane_view_not_reshapeable_skipped");
        return;
    }
    acc.count(&format!("op_{}", opname));
    acc.count(&format!("layout_{}", layout.class()));
    let cj = |what: String| {
        J::obj(vec![("op", J::s(opname)), ("elem", J::s("Tracked")), ("shape", J::us(&shape)), ("axis", J::u(axis)), ("layout", layout.to_json()), ("keys", J::A(data.iter().take(80).map(|t| J::I(t.key as i128)).collect())), ("what", J::s(what))])
    };
    if let Err(m) = res {
        acc.violation("no_panic", None, cj(format!("panicked: {}", m)));
        return;
    }
    if erroring {
        // nothing at all may have changed
        let after = e.parent_bits();
        if after != before {
            acc.violation("error_modifies", None, cj("a call that returned an error modified the array".into()));
            return;
        }
    }
    if let Err((mon, what)) = shadow_judge(&e, &before, &inview, &judged_lanes) {
        acc.violation(&mon, None, cj(what));
        return;
    }
    if n >= 2 {
        acc.nontrivial(h64(&(opname, &shape, axis, &layout, data.iter().map(|t| t.key).collect::<Vec<_>>())));
    }
    acc.sample(|| cj("sample".into()));
}

fn c03_arc(rng: &mut Rng, acc: &mut Acc) {
    // a second ArcArray handle must not see the shuffling
    let n0 = 1 + rng.below(5);
    let n1 = 1 + rng.below(9);
    let data: Vec<i32> = (0..n0 * n1).map(|_| rng.range(-5, 5) as i32).collect();
    let a = Array2::from_shape_vec((n0, n1), data.clone()).unwrap();
    let mut shared = a.into_shared();
    let other = shared.clone();
    let snapshot = other.to_owned();
    set_pivots(pick_policy(rng));
    acc.eval();
    let axis = rng.below(2);
    let q = n64(rng.unit());
    let r = catch(|| {
        shared.quantile_axis_mut(Axis(axis), q, &Lower).unwrap();
    });
    acc.count("op_arc_quantile_axis_mut");
    if r.is_err() || other != snapshot {
        acc.violation("shared_handle", None, J::obj(vec![("op", J::s("quantile_axis_mut on ArcArray with a second handle")), ("what", J::s("the other handle changed or the call panicked")), ("data", J::A(data.iter().map(|&x| J::I(x as i128)).collect()))]));
    }
    // multiset per lane in the mutated handle
    let lanes = lanes_of(&[n0, n1], axis);
    let now: Vec<i32> = shared.iter().cloned().collect();
    for l in lanes {
        let mut b: Vec<i32> = l.iter().map(|&i| data[i]).collect();
        let mut a2: Vec<i32> = l.iter().map(|&i| now[i]).collect();
        b.sort();
        a2.sort();
        if a2 != b {
            acc.violation("lane_multiset", None, J::obj(vec![("op", J::s("quantile_axis_mut on ArcArray")), ("what", J::s("lane multiset changed"))]));
            return;
        }
    }
    acc.nontrivial(h64(&(n0, n1, axis, &data)));
}

/// remove_nan_mut + quantile_axis_skipnan_mut under the shadow monitor
fn c03_skipnan<T: Miss>(rng: &mut Rng, acc: &mut Acc)
where
    T::NotNan: Ord + Clone + num_traits::FromPrimitive + num_traits::ToPrimitive + num_traits::NumOps,
{
    let c = gen_ncase::<T>(rng, false);
    let lanes = lanes_of(&c.shape, c.axis);
    let mut e = Embedded::new(&c.shape, &c.data, c.layout.clone());
    let before = e.parent_bits();
    let inview = e.in_view_mask();
    set_pivots(pick_policy(rng));
    acc.eval();
    let bad_q = rng.chance(0.1);
    let q = if bad_q { n64(*rng.pick(&[-0.1, 1.1])) } else { n64(rng.unit()) };
    let st = *rng.pick(&[St::Lower, St::Higher, St::Nearest]);
    let res = {
        let mut v = e.view_mut();
        catch(|| match st {
            St::Lower => v.quantile_axis_skipnan_mut(Axis(c.axis), q, &Lower).map(|_| ()),
            St::Higher => v.quantile_axis_skipnan_mut(Axis(c.axis), q, &Higher).map(|_| ()),
            _ => v.quantile_axis_skipnan_mut(Axis(c.axis), q, &Nearest).map(|_| ()),
        })
    };
    acc.count("op_quantile_axis_skipnan_mut");
    acc.count(&format!("elem_{}", T::NAME));
    acc.count(&format!("layout_{}", c.layout.class()));
    let cj = |what: String| {
        let mut j = ncase_json(&c, "quantile_axis_skipnan_mut");
        if let J::O(kv) = &mut j {
            kv.push(("what".into(), J::s(what)));
            kv.push(("q".into(), J::F(q.raw())));
        }
        j
    };
    match res {
        Err(m) => {
            acc.violation("no_panic", None, cj(format!("panicked: {}", m)));
            return;
        }
        Ok(r) => {
            if bad_q != r.is_err() {
                acc.violation("error_value", None, cj(format!("q = {} gave {:?}", q, r.is_ok())));
                return;
            }
            if bad_q && e.parent_bits() != before {
                acc.violation("error_modifies", None, cj("a call that returned an error modified the array".into()));
                return;
            }
        }
    }
    if let Err((mon, what)) = shadow_judge(&e, &before, &inview, &lanes) {
        acc.violation(&mon, None, cj(what));
        return;
    }
    if c.shape[c.axis] >= 2 {
        acc.nontrivial(h64(&(T::NAME, &c.shape, c.axis, &c.layout, c.data.iter().map(|x| x.bits()).collect::<Vec<_>>())));
    }
    acc.sample(|| cj("sample".into()));
}

// ---------------------------------------------------------------------------
// C14: skip-NaN operations vs plain operation on the filtered data
// ---------------------------------------------------------------------------
fn nn_of<T: Miss>(x: &T) -> T::NotNan
where
    T::NotNan: Ord + Clone,
{
    x.try_as_not_nan().expect("non-missing").clone()
}

fn quantile_plain<T: Miss>(lane: &[T::Plain], q: N64, st: St) -> Result<T::Plain, String>
where
    T::NotNan: Ord + Clone,
{
    let mut a = Array1::from(lane.to_vec());
    let r = catch(|| match st {
        St::Lower => a.quantile_mut(q, &Lower),
        St::Higher => a.quantile_mut(q, &Higher),
        St::Nearest => a.quantile_mut(q, &Nearest),
        St::Midpoint => a.quantile_mut(q, &Midpoint),
        St::Linear => a.quantile_mut(q, &Linear),
    });
    match r {
        Ok(Ok(x)) => Ok(x),
        Ok(Err(e)) => Err(format!("Err({:?})", e)),
        Err(m) => Err(format!("panic({})", m)),
    }
}

fn c14_case<T: Miss>(rng: &mut Rng, acc: &mut Acc)
where
    T::NotNan: Ord + Clone + num_traits::FromPrimitive + num_traits::ToPrimitive + num_traits::NumOps,
{
    let c = gen_ncase::<T>(rng, false);
    let total = c.data.len();
    let lanes = lanes_of(&c.shape, c.axis);
    acc.count(&format!("elem_{}", T::NAME));
    acc.count(&format!("layout_{}", c.layout.class()));
    let nmiss = c.data.iter().filter(|x| x.raw_missing()).count();
    acc.count(if nmiss == 0 { "mask_none" } else if nmiss == total { "mask_all" } else { "mask_some" });
    let cj = |op: &str, what: String| {
        let mut j = ncase_json(&c, op);
        if let J::O(kv) = &mut j {
            kv.push(("what".into(), J::s(what)));
        }
        j
    };
    let kept: Vec<(usize, T)> = c.data.iter().cloned().enumerate().filter(|(_, x)| !x.raw_missing()).collect();
    let kept_nn: Vec<T::NotNan> = kept.iter().map(|(_, x)| nn_of(x)).collect();
    let e = Embedded::new(&c.shape, &c.data, c.layout.clone());
    let v = e.view();
    // ---- min / max _skipnan : value forms
    let true_min = kept_nn.iter().min().cloned();
    let true_max = kept_nn.iter().max().cloned();
    for (name, want, got) in [("min_skipnan", &true_min, catch(|| v.min_skipnan().clone())), ("max_skipnan", &true_max, catch(|| v.max_skipnan().clone()))] {
        acc.eval();
        match got {
            Err(m) => {
                acc.violation("no_panic", None, cj(name, format!("panicked: {}", m)));
                return;
            }
            Ok(g) => {
                let ok = match want {
                    None => g.raw_missing(),
                    Some(w) => !g.raw_missing() && nn_of(&g) == *w,
                };
                if !ok {
                    acc.violation("value_form", None, cj(name, format!("returned {}, expected {}", if g.raw_missing() { "NA".into() } else { g.show() }, match want { None => "the missing value".to_string(), Some(w) => T::from_not_nan(w.clone()).show() })));
                    return;
                }
                // also: equals the plain routine on the filtered owned copy (the statement's own definition)
                if let Some(_) = want {
                    let owned = Array1::from(kept_nn.clone());
                    let plain = if name == "min_skipnan" { owned.min().ok().cloned() } else { owned.max().ok().cloned() };
                    if plain.map(|p| p != nn_of(&g)).unwrap_or(true) {
                        acc.violation("filter_then_plain", None, cj(name, "differs from the plain routine applied to the filtered data".into()));
                        return;
                    }
                }
            }
        }
    }
    // ---- argmin / argmax _skipnan : index forms (IxDyn pattern = IxDyn)
    for (name, want, got) in [("argmin_skipnan", &true_min, catch(|| v.argmin_skipnan())), ("argmax_skipnan", &true_max, catch(|| v.argmax_skipnan()))] {
        acc.eval();
        match got {
            Err(m) => {
                acc.violation("no_panic", None, cj(name, format!("panicked: {}", m)));
                return;
            }
            Ok(Err(_)) => {
                if want.is_some() {
                    acc.violation("index_form", None, cj(name, "EmptyInput although non-missing elements exist".into()));
                    return;
                }
            }
            Ok(Ok(idx)) => {
                let idxv: Vec<usize> = idx.slice().to_vec();
                let inb = idxv.len() == c.shape.len() && idxv.iter().zip(&c.shape).all(|(i, s)| i < s);
                let ok = match want {
                    None => false,
                    Some(w) => {
                        inb && {
                            let st = row_major_strides(&c.shape);
                            let flat: usize = idxv.iter().zip(&st).map(|(i, s)| i * s).sum();
                            !c.data[flat].raw_missing() && nn_of(&c.data[flat]) == *w
                        }
                    }
                };
                if !ok {
                    acc.violation("index_form", None, cj(name, format!("returned index {:?} which does not designate the extremum of the non-missing elements", idxv)));
                    return;
                }
            }
        }
    }
    // ---- fold / indexed fold / visit: each remaining element exactly once
    {
        acc.evals += 3;
        let want = multiset(&kept.iter().map(|(_, x)| x.bits()).collect::<Vec<_>>());
        let f = catch(|| v.fold_skipnan(Vec::new(), |mut acc2, x| {
            acc2.push(T::nn_bits(x));
            acc2
        }));
        let mut vis = vec![];
        let vi = catch(|| v.visit_skipnan(|x| vis.push(T::nn_bits(x))));
        let fi = catch(|| {
            v.indexed_fold_skipnan(Vec::new(), |mut acc2, (idx, x)| {
                acc2.push((idx.slice().to_vec(), T::nn_bits(x)));
                acc2
            })
        });
        match (f, vi, fi) {
            (Ok(f), Ok(()), Ok(fi)) => {
                if multiset(&f) != want {
                    acc.violation("fold_once", None, cj("fold_skipnan", "did not see each non-missing element exactly once".into()));
                    return;
                }
                if multiset(&vis) != want {
                    acc.violation("fold_once", None, cj("visit_skipnan", "did not see each non-missing element exactly once".into()));
                    return;
                }
                // indexed: (index, value) pairs must be exactly the kept (logical index, value) pairs
                let st = row_major_strides(&c.shape);
                let mut got: Vec<(usize, (u8, u128))> = fi.iter().map(|(idx, b)| (idx.iter().zip(&st).map(|(i, s)| i * s).sum::<usize>(), *b)).collect();
                got.sort();
                let mut wantp: Vec<(usize, (u8, u128))> = kept.iter().map(|(i, x)| (*i, x.bits())).collect();
                wantp.sort();
                if got != wantp {
                    acc.violation("fold_once", None, cj("indexed_fold_skipnan", "the (index, element) pairs seen are not exactly the non-missing elements at their logical indices".into()));
                    return;
                }
            }
            _ => {
                acc.violation("no_panic", None, cj("fold/visit_skipnan", "panicked".into()));
                return;
            }
        }
    }
    // ---- fold_axis_skipnan: per lane, order-insensitive summary (count, multiset hash)
    {
        acc.eval();
        let r = catch(|| v.fold_axis_skipnan(Axis(c.axis), Vec::<(u8, u128)>::new(), |a, x| {
            let mut a = a.clone();
            a.push(T::nn_bits(x));
            a
        }));
        match r {
            Err(m) => {
                acc.violation("no_panic", None, cj("fold_axis_skipnan", format!("panicked: {}", m)));
                return;
            }
            Ok(out) => {
                let mut rem = c.shape.clone();
                rem.remove(c.axis);
                if out.shape() != &rem[..] {
                    acc.violation("shape", None, cj("fold_axis_skipnan", format!("shape {:?} expected {:?}", out.shape(), rem)));
                    return;
                }
                for (li, l) in lanes.iter().enumerate() {
                    let want: Vec<(u8, u128)> = l.iter().filter(|&&i| !c.data[i].raw_missing()).map(|&i| c.data[i].bits()).collect();
                    let got = &out[IxDyn(&unravel(li, &rem))];
                    if multiset(got) != multiset(&want) {
                        acc.violation("fold_axis", None, cj("fold_axis_skipnan", format!("lane {}: folded elements are not that lane's non-missing elements (each exactly once)", li)));
                        return;
                    }
                    // the plain fold_axis on the filtered data visits a lane in increasing index along the axis: an
                    // order-sensitive closure (here: append) must see the same sequence
                    if got != &want {
                        acc.violation("fold_axis", None, cj("fold_axis_skipnan", format!("lane {}: the non-missing elements were folded in another order than increasing index along the axis", li)));
                        return;
                    }
                }
            }
        }
    }
    // ---- quantile_axis_skipnan_mut vs quantile_mut on the filtered lane
    {
        let n = c.shape[c.axis];
        let nm1 = (n.max(2) - 1) as f64;
        let k = rng.below(n) as f64;
        // requests on the rank grid of one lane's REMAINING count m (whole and half ranks of the filtered data),
        // besides the grid of the full lane length, the extremes, the median and arbitrary reals
        let m = if lanes.is_empty() { 0 } else { lanes[rng.below(lanes.len())].iter().filter(|&&i| !c.data[i].raw_missing()).count() };
        let mm1 = (m.max(2) - 1) as f64;
        let j = rng.below(m.max(1)) as f64;
        let q = match rng.below(10) {
            0 => 0.0,
            1 => 1.0,
            2 => k / nm1,
            3 => (k + 0.5) / nm1,
            4 => 0.5,
            5 | 6 => j / mm1,
            7 => (j + 0.5) / mm1,
            _ => rng.unit(),
        }
        .clamp(0.0, 1.0);
        acc.count(if m >= 2 && (q * mm1).fract() == 0.0 { "q_whole_rank_of_filtered_lane" } else { "q_other" });
        let sts: &[St] = &[St::Lower, St::Higher, St::Nearest, St::Midpoint, St::Linear];
        let st = *rng.pick(sts);
        let mut e2 = Embedded::new(&c.shape, &c.data, c.layout.clone());
        set_pivots(pick_policy(rng));
        acc.eval();
        let r = {
            let mut vm = e2.view_mut();
            catch(|| match st {
                St::Lower => vm.quantile_axis_skipnan_mut(Axis(c.axis), n64(q), &Lower),
                St::Higher => vm.quantile_axis_skipnan_mut(Axis(c.axis), n64(q), &Higher),
                St::Nearest => vm.quantile_axis_skipnan_mut(Axis(c.axis), n64(q), &Nearest),
                St::Midpoint => vm.quantile_axis_skipnan_mut(Axis(c.axis), n64(q), &Midpoint),
                St::Linear => vm.quantile_axis_skipnan_mut(Axis(c.axis), n64(q), &Linear),
            })
        };
        let opn = format!("quantile_axis_skipnan_mut(q={:e},{:?})", q, st);
        let mut rem = c.shape.clone();
        rem.remove(c.axis);
        // expected per lane from the plain routine on the filtered lane
        // the plain routine runs on the PLAIN element type (i32 for Option<i32>): the statement's "same data with
        // the missing values deleted"
        let mut expected: Vec<Result<Option<T::Plain>, String>> = vec![];
        for l in &lanes {
            let fl: Vec<T::Plain> = l.iter().filter(|&&i| !c.data[i].raw_missing()).map(|&i| c.data[i].to_plain()).collect();
            if fl.is_empty() {
                expected.push(Ok(None));
            } else {
                set_pivots(pick_policy(rng));
                expected.push(quantile_plain::<T>(&fl, n64(q), st).map(Some));
            }
        }
        let plain_failed = expected.iter().any(|x| x.is_err());
        match r {
            Err(m) => {
                if !plain_failed {
                    acc.violation("filter_then_plain", None, cj(&opn, format!("panicked ({}) but the plain routine succeeds on every filtered lane", m)));
                    return;
                } else {
                    acc.count("both_sides_fail");
                }
            }
            Ok(Err(er)) => {
                acc.violation("filter_then_plain", None, cj(&opn, format!("returned Err({:?}) for a valid q on a non-empty axis", er)));
                return;
            }
            Ok(Ok(out)) => {
                if out.shape() != &rem[..] {
                    acc.violation("shape", None, cj(&opn, format!("shape {:?} expected {:?}", out.shape(), rem)));
                    return;
                }
                for (li, ex) in expected.iter().enumerate() {
                    let got = &out[IxDyn(&unravel(li, &rem))];
                    let ok = match ex {
                        Ok(None) => got.raw_missing(),
                        // compared through the underlying representation (an interpolation of +inf and -inf is a NaN on both sides)
                        Ok(Some(w)) => got.bits() == w.bits(),
                        Err(_) => true, // plain routine itself fails on this lane (F7-type input): not comparable
                    };
                    if !ok {
                        acc.violation(
                            "filter_then_plain",
                            None,
                            cj(&opn, format!("lane {}: got {}, the plain routine on the filtered lane gives {}", li, if got.raw_missing() { "NA".into() } else { got.show() }, match ex { Ok(Some(w)) => w.show(), Ok(None) => "NA".into(), Err(e) => e.clone() })),
                        );
                        return;
                    }
                }
            }
        }
    }
    if total >= 2 {
        acc.nontrivial(h64(&(T::NAME, &c.shape, c.axis, &c.layout, c.data.iter().map(|x| x.bits()).collect::<Vec<_>>())));
    }
    acc.sample(|| ncase_json(&c, "skipnan family vs plain routine on the filtered data"));
}

fn main() {
    let args = Args::parse();
    let prop = args.prop.clone();
    let thorough = args.thorough();
    // sanitizer runs pass --sanitizer to shrink the workload; parameters come from argv only
    let san = args.rest.iter().any(|a| a == "--sanitizer");
    let tiny = args.rest.iter().any(|a| a == "--tiny");
    let r = Runner::new(args);

    if prop == "C04" {
        // exhaustive masks; one work item = (type, length)
        let maxlen = if tiny { 4 } else if san { 7 } else { 10 };
        let layouts: Vec<(isize, usize, usize)> = if tiny { vec![(1, 0, 0), (2, 1, 0), (-1, 0, 1), (-2, 1, 1)] } else { C04_LAYOUTS.to_vec() };
        let ntypes = if tiny { 4 } else { 14 };
        let tiny_types = [1usize, 9, 13, 6];
        r.section("all_masks", (ntypes * (maxlen + 1)) as u64, |k, _rng, acc| {
            let t = if tiny { tiny_types[k as usize % ntypes] } else { k as usize % ntypes };
            let len = k as usize / ntypes;
            by_miss_type!(t, c04_all_masks, acc, len, &layouts);
            acc.sample(|| J::obj(vec![("op", J::s("remove_nan_mut, all masks of this length x strides/offsets")), ("len", J::u(len)), ("type_index", J::u(t)), ("layouts", J::A(layouts.iter().map(|l| J::s(format!("{:?}", l))).collect()))]));
        });
        r.section("lanes", r.args.n(if tiny { 60 } else if san { 3_000 } else { 20_000 }, 600_000), |k, rng, acc| {
            by_lane_type!(k as usize, lanes_case, rng, acc, "C04", tiny);
        });
        // lanes beyond 2^31 / 2^32 elements (thorough tier, plain release build only; needs 9 / 18 GB)
        if thorough && !san && !tiny && r.args.profile == "release" {
            r.section("huge_lanes", 2, |k, _rng, acc| {
                let avail_gb = std::fs::read_to_string("/proc/meminfo")
                    .ok()
                    .and_then(|m| m.lines().find(|l| l.starts_with("MemAvailable:")).and_then(|l| l.split_whitespace().nth(1).and_then(|v| v.parse::<u64>().ok())))
                    .unwrap_or(0)
                    / (1 << 20);
                let (n, fill_nan, need_gb): (usize, bool, u64) = if k == 0 { ((1usize << 31) + 5, false, 14) } else { ((1usize << 32) + 3, true, 26) };
                if avail_gb < need_gb {
                    acc.count("huge_lane_skipped_low_memory");
                    return;
                }
                acc.eval();
                // k = 0: 2^31+5 zeros with 2 NaNs (lazily mapped zero pages); k = 1: 2^32 NaNs and 3 values
                let mut v: Vec<f32> = if fill_nan { vec![f32::NAN; n] } else { vec![0f32; n] };
                let expect = if fill_nan {
                    v[7] = 1.5;
                    v[n / 2] = -2.5;
                    v[n - 2] = 3.5;
                    3usize
                } else {
                    v[11] = f32::NAN;
                    v[n - 3] = f32::from_bits(0x7f80_0001);
                    n - 2
                };
                let mut a = Array1::from(v);
                let res = catch(|| {
                    let r = <f32 as MaybeNan>::remove_nan_mut(a.view_mut());
                    let len = r.len();
                    let nan_inside = r.iter().filter(|x| x.raw().is_nan()).count();
                    (len, nan_inside)
                });
                let detail = |what: String| J::obj(vec![("op", J::s("remove_nan_mut on a lane longer than 2^31 elements")), ("elem", J::s("f32")), ("len", J::s(format!("{}", n))), ("what", J::s(what))]);
                match res {
                    Ok((len, nan_inside)) if len == expect && nan_inside == 0 => {
                        acc.exact_nontrivial += 1;
                        acc.count("huge_lanes_judged");
                    }
                    Ok((len, nan_inside)) => acc.violation("length", None, detail(format!("returned length {} with {} NaN inside, expected {} non-missing elements", len, nan_inside, expect))),
                    Err(m) => acc.violation("no_panic", None, detail(format!("panicked: {}", m))),
                }
                acc.sample(|| detail("sample".into()));
            });
        }
        // longer random masks
        if !tiny {
            r.section("long_masks", r.args.n(if san { 1_000 } else { 6_000 }, 200_000), |k, rng, acc| {
                let len = 11 + rng.below(60);
                let p = *rng.pick(&[0.05, 0.3, 0.5, 0.9]);
                let mut mask: Vec<bool> = (0..len).map(|_| rng.chance(p)).collect();
                if rng.chance(0.3) {
                    // a few values, a long run of one kind, a few values
                    let (pre, suf) = (rng.below(4), rng.below(4));
                    let inner = rng.chance(0.7);
                    for j in 0..len {
                        if !(j < pre || j + suf >= len) {
                            mask[j] = inner;
                        } else {
                            mask[j] = !inner;
                        }
                    }
                }
                let lay = lay1(*rng.pick(&[1isize, 2, 3, -1, -2, -3, 5, -7]), rng.below(4), rng.below(4));
                by_miss_type!(k as usize, c04_mask, acc, &mask, &lay);
                acc.nontrivial(h64(&(k % 14, &mask, &lay)));
            });
        }
    }

    if prop == "C03" {
        let scale = if tiny { 0.004 } else if san { 0.15 } else { 1.0 };
        let n = |q: u64, t: u64| ((r.args.n(q, t) as f64) * scale).ceil() as u64;
        r.section("tracked_routines", n(30_000, 2_000_000), |_k, rng, acc| c03_tracked(rng, acc));
        r.section("arc_handles", n(3_000, 100_000), |_k, rng, acc| c03_arc(rng, acc));
        r.section("owned_elems", n(12_000, 600_000), |_k, rng, acc| c03_owned(rng, acc));
        r.section("owned_arrays", n(12_000, 400_000), |_k, rng, acc| c03_owned_arrays(rng, acc));
        r.section("skipnan_quantile", n(12_000, 600_000), |k, rng, acc| {
            by_lane_type!(k as usize, c03_skipnan, rng, acc);
        });
        r.section("skipnan_lane_writer", n(12_000, 600_000), |k, rng, acc| {
            by_lane_type!(k as usize, lanes_case, rng, acc, "C03", tiny);
        });
        r.section("remove_nan_masks", 4 * 9, |k, _rng, acc| {
            // shadow / guard part of remove_nan_mut over all masks (shared code with C04)
            let t = [1usize, 9, 0, 13][k as usize % 4];
            let len = k as usize / 4;
            if tiny && len > 4 {
                return;
            }
            by_miss_type!(t, c04_all_masks, acc, len, &C04_LAYOUTS);
        });
    }

    if prop == "C14" {
        let scale = if tiny { 0.004 } else if san { 0.1 } else { 1.0 };
        let n = |q: u64, t: u64| ((r.args.n(q, t) as f64) * scale).ceil() as u64;
        r.section("skipnan_vs_plain", n(40_000, 2_500_000), |k, rng, acc| {
            by_lane_type!(k as usize, c14_case, rng, acc);
        });
        r.section("lane_map", n(15_000, 800_000), |k, rng, acc| {
            by_lane_type!(k as usize, lanes_case, rng, acc, "C14", tiny);
        });
    }

    r.finish("mem", vec![("sanitizer_mode", J::B(san)), ("tiny", J::B(tiny))]);
}
