//! Driver `hist`: histogram monitors.
//!   C11  histogram counts are exact for every grid and observation history
//!   C12  strategy-built bins start at the minimum and cover every observation
//!   C13  edges strictly sorted; lookup left-closed, right-open
#![allow(clippy::all)]
use ndarray::prelude::*;
use ndarray_stats::histogram::strategies::{Auto, BinsBuildingStrategy, FreedmanDiaconis, Rice, Sqrt, Sturges};
use ndarray_stats::histogram::{Bins, Edges, Grid, GridBuilder, Histogram};
use ndarray_stats::HistogramExt;
use noisy_float::types::{n64, N64};
use num_traits::{FromPrimitive, Zero};
use std::collections::{BTreeMap, BTreeSet};
use std::ops::{Add, Div, Mul, Rem, Sub};
use vharness::*;

// ---------------------------------------------------------------------------
// C13
// ---------------------------------------------------------------------------
/// linear-scan model: index of the bin containing v over sorted distinct edges
fn model_bin<A: Ord>(edges: &[A], v: &A) -> Option<usize> {
    if edges.len() < 2 {
        return None;
    }
    for i in 0..edges.len() - 1 {
        if edges[i] <= *v && *v < edges[i + 1] {
            return Some(i);
        }
    }
    None
}

fn c13_edges<A: Ord + Clone + std::fmt::Debug + 'static>(acc: &mut Acc, input: &[A], probes: &[A], via: usize, junk: &A, tname: &str) -> bool {
    let via_array = via >= 1;
    let model: Vec<A> = input.iter().cloned().collect::<BTreeSet<A>>().into_iter().collect();
    let cj = |what: String| J::obj(vec![("elem", J::s(tname)), ("edges_input", J::s(format!("{:?}", input))), ("via", J::s(["From<Vec>", "From<Array1>", "From<Array1> (owned array stepped ..;2 inside a larger buffer)", "From<Array1> (owned array sliced 1.. and reversed)"][via % 4])), ("what", J::s(what))]);
    acc.eval();
    let built = catch(|| match via % 4 {
        0 => Edges::from(input.to_vec()),
        1 => Edges::from(Array1::from(input.to_vec())),
        2 => {
            // an owned Array1 that does not cover its whole allocation: every other cell is junk
            let mut big = Vec::with_capacity(input.len() * 2 + 1);
            for x in input {
                big.push(x.clone());
                big.push(junk.clone());
            }
            big.push(junk.clone());
            let n2 = big.len();
            let a = Array1::from(big).slice_move(ndarray::s![..n2 - 1;2]);
            Edges::from(a)
        }
        _ => {
            let mut big = vec![junk.clone()];
            big.extend(input.iter().rev().cloned());
            let a = Array1::from(big).slice_move(ndarray::s![1..;-1]);
            Edges::from(a)
        }
    });
    let edges = match built {
        Ok(e) => e,
        Err(m) => {
            acc.violation("no_panic", None, cj(format!("Edges::from panicked: {}", m)));
            return false;
        }
    };
    // contents
    let got: Vec<A> = edges.iter().cloned().collect();
    if got != model {
        acc.violation("edges_content", None, cj(format!("edges are {:?}, expected the distinct sorted values {:?}", got, model)));
        return false;
    }
    if edges.len() != model.len() || edges.is_empty() != model.is_empty() {
        acc.violation("edges_len", None, cj(format!("len() = {}, is_empty() = {} for {} distinct values", edges.len(), edges.is_empty(), model.len())));
        return false;
    }
    if edges.as_array_view().to_vec() != model {
        acc.violation("edges_view", None, cj("as_array_view disagrees with iter".into()));
        return false;
    }
    for i in 0..model.len() {
        if edges[i] != model[i] {
            acc.violation("edges_index", None, cj(format!("edges[{}] = {:?}", i, edges[i])));
            return false;
        }
    }
    let bins = Bins::new(edges.clone());
    let nb = if model.is_empty() { 0 } else { model.len() - 1 };
    if bins.len() != nb || bins.is_empty() != (nb == 0) {
        acc.violation("bins_len", None, cj(format!("Bins::len() = {} for {} edges", bins.len(), model.len())));
        return false;
    }
    for i in 0..nb {
        let r = bins.index(i);
        if r.start != model[i] || r.end != model[i + 1] {
            acc.violation("bins_index", None, cj(format!("Bins::index({}) = {:?}", i, r)));
            return false;
        }
    }
    // lookups must not depend on earlier lookups on the same object: the probes are asked in ascending order, then
    // descending, then in a scrambled order (same Edges / Bins objects throughout)
    let mut order: Vec<usize> = (0..probes.len()).collect();
    order.extend((0..probes.len()).rev());
    let pl = probes.len().max(1);
    order.extend((0..probes.len()).map(|i| (i * 7 + 3) % pl));
    order.extend((0..probes.len()).map(|i| (i * 5 + 1) % pl));
    for &pi in &order {
        let v = &probes[pi];
        acc.eval();
        let want = model_bin(&model, v);
        let io = match catch(|| edges.indices_of(v)) {
            Ok(x) => x,
            Err(m) => {
                acc.violation("no_panic", None, cj(format!("indices_of({:?}) panicked: {}", v, m)));
                return false;
            }
        };
        if io != want.map(|i| (i, i + 1)) {
            acc.violation("lookup", None, cj(format!("Edges::indices_of({:?}) = {:?}, expected {:?}", v, io, want.map(|i| (i, i + 1)))));
            return false;
        }
        let bi = bins.index_of(v);
        if bi != want {
            acc.violation("lookup", None, cj(format!("Bins::index_of({:?}) = {:?}, expected {:?}", v, bi, want)));
            return false;
        }
        let ro = bins.range_of(v);
        let wr = want.map(|i| model[i].clone()..model[i + 1].clone());
        if ro != wr {
            acc.violation("lookup", None, cj(format!("Bins::range_of({:?}) = {:?}, expected {:?}", v, ro, wr)));
            return false;
        }
        if let Some(i) = bi {
            if Some(bins.index(i)) != ro {
                acc.violation("agreement", None, cj(format!("range_of({:?}) != index(index_of({:?}))", v, v)));
                return false;
            }
        }
    }
    true
}

fn seq_from_index(mut k: u64, len: usize, base: u64) -> Vec<u64> {
    let mut v = vec![0; len];
    for i in 0..len {
        v[i] = k % base;
        k /= base;
    }
    v
}

fn c13_grid(rng: &mut Rng, acc: &mut Acc) {
    // grids of 1..3 axes from random small edge sets, all index tuples + point lookups
    let nd = 1 + rng.below(3);
    let mut axes: Vec<Vec<i32>> = vec![];
    for _ in 0..nd {
        let ne = rng.below(6);
        let mut e: Vec<i32> = (0..ne).map(|_| rng.range(0, 6) as i32 * 2).collect();
        if rng.chance(0.3) {
            e.sort();
        }
        axes.push(e);
    }
    let models: Vec<Vec<i32>> = axes.iter().map(|e| e.iter().cloned().collect::<BTreeSet<_>>().into_iter().collect()).collect();
    let grid = Grid::from(axes.iter().map(|e| Bins::new(Edges::from(e.clone()))).collect::<Vec<_>>());
    let shape: Vec<usize> = models.iter().map(|m| m.len().saturating_sub(1)).collect();
    let cj = |what: String| J::obj(vec![("axes_edges_input", J::s(format!("{:?}", axes))), ("what", J::s(what))]);
    acc.eval();
    if grid.ndim() != nd || grid.shape() != shape || grid.projections().len() != nd {
        acc.violation("grid_shape", None, cj(format!("ndim {} shape {:?}, expected {} {:?}", grid.ndim(), grid.shape(), nd, shape)));
        return;
    }
    let total: usize = shape.iter().product();
    for flat in 0..total {
        let idx = unravel(flat, &shape);
        acc.eval();
        let r = grid.index(&idx);
        for a in 0..nd {
            if r[a].start != models[a][idx[a]] || r[a].end != models[a][idx[a] + 1] {
                acc.violation("grid_index", None, cj(format!("Grid::index({:?})[{}] = {:?}", idx, a, r[a])));
                return;
            }
        }
        // a point inside that cell maps back to the index
        let pt: Vec<i32> = (0..nd).map(|a| models[a][idx[a]] + if rng.chance(0.5) && models[a][idx[a] + 1] - models[a][idx[a]] > 1 { 1 } else { 0 }).collect();
        // the point is handed over as a reversed view half of the time (coordinates must be matched to axes by
        // logical position, not by memory position)
        let found = if flat % 2 == 0 {
            grid.index_of(&Array1::from(pt.clone()))
        } else {
            let mut r = pt.clone();
            r.reverse();
            let a = Array1::from(r);
            grid.index_of(&a.slice(ndarray::s![..;-1]))
        };
        if found != Some(idx.clone()) {
            acc.violation("grid_index_of", None, cj(format!("Grid::index_of({:?}) != {:?}", pt, idx)));
            return;
        }
    }
    for _ in 0..20 {
        let pt: Vec<i32> = (0..nd).map(|_| rng.range(-1, 12) as i32).collect();
        acc.eval();
        let want: Option<Vec<usize>> = (0..nd).map(|a| model_bin(&models[a], &pt[a])).collect();
        let got = {
            // stepped view: coordinates interleaved with junk
            let mut big = vec![];
            for &c in &pt {
                big.push(c);
                big.push(-99);
            }
            let a = Array1::from(big);
            grid.index_of(&a.slice(ndarray::s![..;2]))
        };
        if got != want {
            acc.violation("grid_index_of", None, cj(format!("Grid::index_of({:?}) = {:?}, expected {:?}", pt, got, want)));
            return;
        }
    }
    acc.nontrivial(h64(&axes));
}

// ---------------------------------------------------------------------------
// C11
// ---------------------------------------------------------------------------
/// Edges of one axis through one of the constructors: From<Vec>, From<Array1>, From<Array1> of an owned array
/// that is a stepped / an offset-and-reversed slice of a larger allocation (the hidden cells hold guard values).
fn edges_via<A: Ord + Clone + Elem>(input: &[A], via: usize) -> Edges<A> {
    match via % 4 {
        0 => Edges::from(input.to_vec()),
        1 => Edges::from(Array1::from(input.to_vec())),
        2 => {
            let mut big = Vec::with_capacity(input.len() * 2 + 1);
            for (i, x) in input.iter().enumerate() {
                big.push(x.clone());
                big.push(A::guard(i));
            }
            big.push(A::guard(99));
            let n2 = big.len();
            Edges::from(Array1::from(big).slice_move(ndarray::s![..n2 - 1;2]))
        }
        _ => {
            let mut big = vec![A::guard(5)];
            big.extend(input.iter().rev().cloned());
            big.push(A::guard(6));
            let n2 = big.len();
            Edges::from(Array1::from(big).slice_move(ndarray::s![1..n2 - 1;-1]))
        }
    }
}

fn c11_history<A: Ord + Clone + std::fmt::Debug + Elem>(acc: &mut Acc, axes_in: &[Vec<A>], obs: &[Vec<A>], tname: &str, matrix_layouts: bool, rng: &mut Rng) -> bool {
    let nd = axes_in.len();
    let via = rng.below(4);
    acc.count(&format!("edges_constructor_{}", via));
    let models: Vec<Vec<A>> = axes_in.iter().map(|e| e.iter().cloned().collect::<BTreeSet<_>>().into_iter().collect()).collect();
    let shape: Vec<usize> = models.iter().map(|m| m.len().saturating_sub(1)).collect();
    let mk_grid = || Grid::from(axes_in.iter().enumerate().map(|(a, e)| Bins::new(edges_via(e, via + a))).collect::<Vec<_>>());
    let cj = |what: String, step: usize| {
        J::obj(vec![
            ("elem", J::s(tname)),
            ("axes_edges_input", J::s(format!("{:?}", axes_in))),
            ("edges_constructor_of_first_axis", J::s(["From<Vec>", "From<Array1>", "From<Array1> (owned, stepped slice of a larger buffer)", "From<Array1> (owned, offset + reversed slice)"][via % 4])),
            ("observations", J::s(format!("{:?}", &obs[..obs.len().min(40)]))),
            ("failing_step", J::u(step)),
            ("what", J::s(what)),
        ])
    };
    let mut hist = Histogram::new(mk_grid());
    let mut model: BTreeMap<Vec<usize>, usize> = BTreeMap::new();
    let mut accepted = 0usize;
    if hist.ndim() != nd {
        acc.violation("shape", None, cj(format!("Histogram::ndim() = {}", hist.ndim()), 0));
        return false;
    }
    for (step, o) in obs.iter().enumerate() {
        acc.eval();
        let cell: Option<Vec<usize>> = (0..nd).map(|a| model_bin(&models[a], &o[a])).collect();
        let r = catch(|| hist.add_observation(&Array1::from(o.clone())));
        let r = match r {
            Ok(r) => r,
            Err(m) => {
                acc.violation("no_panic", None, cj(format!("add_observation panicked: {}", m), step));
                return false;
            }
        };
        if r.is_ok() != cell.is_some() {
            acc.violation("accept_reject", None, cj(format!("add_observation({:?}) returned {:?} but the model {} a cell", o, r.is_ok(), if cell.is_some() { "finds" } else { "does not find" }), step));
            return false;
        }
        if let Some(c) = cell {
            *model.entry(c).or_insert(0) += 1;
            accepted += 1;
        }
        // compare the whole counts array with the model after EVERY call
        let counts = hist.counts();
        if counts.shape() != &shape[..] {
            acc.violation("shape", None, cj(format!("counts shape {:?}, grid shape {:?}", counts.shape(), shape), step));
            return false;
        }
        let mut sum = 0usize;
        for (idx, &cnt) in counts.indexed_iter() {
            let key: Vec<usize> = idx.slice().to_vec();
            sum += cnt;
            if cnt != *model.get(&key).unwrap_or(&0) {
                acc.violation("counts", None, cj(format!("count at {:?} is {}, model says {}", key, cnt, model.get(&key).unwrap_or(&0)), step));
                return false;
            }
        }
        if sum != accepted {
            acc.violation("conservation", None, cj(format!("sum of counts {} != accepted observations {}", sum, accepted), step));
            return false;
        }
    }
    // matrix form, in several layouts and with permuted rows
    if matrix_layouts && !obs.is_empty() {
        let n = obs.len();
        let flat: Vec<A> = obs.iter().flat_map(|o| o.iter().cloned()).collect();
        let mut perm: Vec<usize> = (0..n).collect();
        rng.shuffle(&mut perm);
        let flat_perm: Vec<A> = perm.iter().flat_map(|&i| obs[i].iter().cloned()).collect();
        for (li, data) in [(0usize, &flat), (1, &flat), (2, &flat), (3, &flat_perm), (4, &flat)] {
            let lay = match li {
                0 => Layout::canonical(2),
                1 => Layout::fortran(2),
                2 => Layout::family(2, 4),
                3 => Layout::family(2, 3),
                _ => Layout::random(2, rng),
            };
            let e = Embedded::new(&[n, nd], data, lay.clone());
            let v = e.view().into_dimensionality::<Ix2>().unwrap();
            acc.eval();
            let h = match catch(|| v.histogram(mk_grid())) {
                Ok(h) => h,
                Err(m) => {
                    acc.violation("no_panic", None, cj(format!("histogram() panicked: {}", m), n));
                    return false;
                }
            };
            let counts = h.counts();
            if counts.shape() != &shape[..] {
                acc.violation("shape", None, cj(format!("matrix form: counts shape {:?}", counts.shape()), n));
                return false;
            }
            for (idx, &cnt) in counts.indexed_iter() {
                let key: Vec<usize> = idx.slice().to_vec();
                if cnt != *model.get(&key).unwrap_or(&0) {
                    acc.violation("matrix_counts", None, cj(format!("matrix form (layout {}{}): count at {:?} is {}, model says {}", lay.class(), if li == 3 { ", rows permuted" } else { "" }, key, cnt, model.get(&key).unwrap_or(&0)), n));
                    return false;
                }
            }
            acc.count(&format!("matrix_layout_{}", lay.class()));
        }
    }
    true
}

/// matrix form only, against the linear-scan model (for matrices with thousands of rows)
fn c11_matrix_only(acc: &mut Acc, axes_in: &[Vec<i32>], obs: &[Vec<i32>], rng: &mut Rng) -> bool {
    let nd = axes_in.len();
    let models: Vec<Vec<i32>> = axes_in.iter().map(|e| e.iter().cloned().collect::<BTreeSet<_>>().into_iter().collect()).collect();
    let shape: Vec<usize> = models.iter().map(|m| m.len().saturating_sub(1)).collect();
    let mut model: BTreeMap<Vec<usize>, usize> = BTreeMap::new();
    for o in obs {
        if let Some(c) = (0..nd).map(|a| model_bin(&models[a], &o[a])).collect::<Option<Vec<usize>>>() {
            *model.entry(c).or_insert(0) += 1;
        }
    }
    let n = obs.len();
    let flat: Vec<i32> = obs.iter().flat_map(|o| o.iter().cloned()).collect();
    for li in 0..3 {
        let lay = match li {
            0 => Layout::canonical(2),
            1 => Layout::fortran(2),
            _ => Layout::random(2, rng),
        };
        let e = Embedded::new(&[n, nd], &flat, lay.clone());
        let v = e.view().into_dimensionality::<Ix2>().unwrap();
        acc.eval();
        let grid = Grid::from(axes_in.iter().map(|e| Bins::new(Edges::from(e.clone()))).collect::<Vec<_>>());
        let h = match catch(|| v.histogram(grid)) {
            Ok(h) => h,
            Err(m) => {
                acc.violation("no_panic", None, J::obj(vec![("what", J::s(format!("histogram() of a {} x {} matrix panicked: {}", n, nd, m)))]));
                return false;
            }
        };
        let counts = h.counts();
        if counts.shape() != &shape[..] {
            acc.violation("shape", None, J::obj(vec![("what", J::s(format!("counts shape {:?}, grid shape {:?}", counts.shape(), shape)))]));
            return false;
        }
        for (idx, &cnt) in counts.indexed_iter() {
            let key: Vec<usize> = idx.slice().to_vec();
            if cnt != *model.get(&key).unwrap_or(&0) {
                acc.violation("matrix_counts", None, J::obj(vec![("rows", J::u(n)), ("axes_edges", J::s(format!("{:?} edges per axis", axes_in.iter().map(|a| a.len()).collect::<Vec<_>>()))), ("layout", lay.to_json()), ("what", J::s(format!("count at {:?} is {}, model says {}", key, cnt, model.get(&key).unwrap_or(&0))))]));
                return false;
            }
        }
    }
    true
}

/// observation candidates for an axis: below, every edge, every midpoint (doubled values), above
fn candidates(model: &[i32]) -> Vec<i32> {
    let mut c = vec![-3];
    for (i, &e) in model.iter().enumerate() {
        c.push(e);
        if i + 1 < model.len() {
            c.push((e + model[i + 1]) / 2);
        }
    }
    c.push(model.last().cloned().unwrap_or(0) + 3);
    c.sort();
    c.dedup();
    c
}

// ---------------------------------------------------------------------------
// C12
// ---------------------------------------------------------------------------
/// Element type that delegates to T and counts every arithmetic / comparison
/// operation against the per-thread step budget (logical-step termination monitor).
#[derive(Clone, Copy, Debug)]
struct Counted<T>(T);
impl<T: PartialEq> PartialEq for Counted<T> {
    fn eq(&self, o: &Self) -> bool {
        step();
        self.0 == o.0
    }
}
impl<T: Eq> Eq for Counted<T> {}
impl<T: PartialOrd> PartialOrd for Counted<T> {
    fn partial_cmp(&self, o: &Self) -> Option<std::cmp::Ordering> {
        step();
        self.0.partial_cmp(&o.0)
    }
}
impl<T: Ord> Ord for Counted<T> {
    fn cmp(&self, o: &Self) -> std::cmp::Ordering {
        step();
        self.0.cmp(&o.0)
    }
}
macro_rules! counted_op {
    ($tr:ident, $f:ident) => {
        impl<T: $tr<Output = T>> $tr for Counted<T> {
            type Output = Counted<T>;
            fn $f(self, o: Self) -> Self {
                step();
                Counted(self.0.$f(o.0))
            }
        }
    };
}
counted_op!(Add, add);
counted_op!(Sub, sub);
counted_op!(Mul, mul);
counted_op!(Div, div);
counted_op!(Rem, rem);
impl<T: Zero> Zero for Counted<T> {
    fn zero() -> Self {
        Counted(T::zero())
    }
    fn is_zero(&self) -> bool {
        self.0.is_zero()
    }
}
impl<T: FromPrimitive> FromPrimitive for Counted<T> {
    fn from_i64(n: i64) -> Option<Self> {
        T::from_i64(n).map(Counted)
    }
    fn from_u64(n: u64) -> Option<Self> {
        T::from_u64(n).map(Counted)
    }
    fn from_f64(n: f64) -> Option<Self> {
        T::from_f64(n).map(Counted)
    }
    fn from_usize(n: usize) -> Option<Self> {
        T::from_usize(n).map(Counted)
    }
    fn from_u8(n: u8) -> Option<Self> {
        T::from_u8(n).map(Counted)
    }
}

impl<T: num_traits::ToPrimitive> num_traits::ToPrimitive for Counted<T> {
    fn to_i64(&self) -> Option<i64> {
        self.0.to_i64()
    }
    fn to_u64(&self) -> Option<u64> {
        self.0.to_u64()
    }
    fn to_f64(&self) -> Option<f64> {
        self.0.to_f64()
    }
    fn to_i128(&self) -> Option<i128> {
        self.0.to_i128()
    }
    fn to_u128(&self) -> Option<u128> {
        self.0.to_u128()
    }
}

trait HElem: Ord + Copy + std::fmt::Debug + FromPrimitive + num_traits::ToPrimitive + Zero + num_traits::NumOps + Elem + Send + Sync {
    const FLOAT: bool;
    fn f(&self) -> f64;
    /// exact value for integer types (geometry of integer bins is judged exactly)
    fn int(&self) -> Option<i128> {
        None
    }
}
macro_rules! helem_int {
    ($($t:ident),*) => {$( impl HElem for $t { const FLOAT: bool = false; fn f(&self) -> f64 { *self as f64 } fn int(&self) -> Option<i128> { Some(*self as i128) } } )*};
}
helem_int!(i32, i64, u16, usize);
impl HElem for N64 {
    const FLOAT: bool = true;
    fn f(&self) -> f64 {
        self.raw()
    }
}

thread_local! {
    /// set when a (data, strategy) pair was not judged (too many bins): the un-budgeted grid stage is skipped then
    static SKIPPED: std::cell::Cell<bool> = std::cell::Cell::new(false);
}

trait Strat: BinsBuildingStrategy {
    fn width(&self) -> Self::Elem;
    const SNAME: &'static str;
}
macro_rules! strat {
    ($s:ident) => {
        impl<T: Ord + Clone + FromPrimitive + num_traits::ToPrimitive + num_traits::NumOps + Zero> Strat for $s<T> {
            fn width(&self) -> T {
                self.bin_width()
            }
            const SNAME: &'static str = stringify!($s);
        }
    };
}
strat!(Sqrt);
strat!(Rice);
strat!(Sturges);
strat!(FreedmanDiaconis);
strat!(Auto);

fn ulp(x: f64) -> f64 {
    let a = x.abs().max(f64::MIN_POSITIVE);
    f64::from_bits(a.to_bits() + 1) - a
}

/// One (data set, strategy) judgement.  `S` is the strategy over the bare
/// type, `SC` the same strategy over Counted<T> (termination monitor).
fn c12_one<T: HElem, S: Strat<Elem = T>, SC: Strat<Elem = Counted<T>>>(acc: &mut Acc, data: &[T], class: &str, f4: bool) -> bool {
    let n = data.len();
    let arr = Array1::from(data.to_vec());
    let cj = |what: String| {
        J::obj(vec![
            ("strategy", J::s(S::SNAME)),
            ("elem", J::s(T::NAME)),
            ("data_class", J::s(class)),
            ("n", J::u(n)),
            ("data", J::A(data.iter().take(48).map(|x| J::s(x.show())).collect())),
            ("what", J::s(what)),
        ])
    };
    let _ = f4;
    acc.eval();
    set_pivots(Pivots::Natural);
    // ---- construction with the counting element type: termination as a logical-step bound
    let carr: Array1<Counted<T>> = data.iter().map(|&x| Counted(x)).collect();
    let logn = ((n + 2) as f64).log2().ceil() as u64;
    set_budget(400 * (n as u64 + 1) * logn + 1_000_000);
    let cb = catch(|| SC::from_array(&carr));
    set_budget(u64::MAX);
    let cb = match cb {
        Err(m) => {
            acc.violation(if m == BUDGET_MSG { "termination" } else { "no_panic" }, None, cj(format!("from_array (counting element type): {}", m)));
            return false;
        }
        Ok(b) => b,
    };
    let built = catch(|| S::from_array(&arr));
    let built = match built {
        Err(m) => {
            acc.violation("no_panic", None, cj(format!("from_array panicked: {}", m)));
            return false;
        }
        Ok(b) => b,
    };
    if cb.is_ok() != built.is_ok() {
        acc.harness_error("counting and bare element types disagree on acceptance".into());
        return false;
    }
    let mn = data.iter().min().cloned();
    let mx = data.iter().max().cloned();
    let strat = match built {
        Err(e) => {
            if n == 0 {
                if !e.is_empty_input() {
                    acc.violation("error_kind", None, cj(format!("empty data rejected with {:?}, expected EmptyInput", e)));
                    return false;
                }
                return true;
            }
            if mn == mx {
                if !e.is_strategy() {
                    acc.violation("error_kind", None, cj(format!("constant data rejected with {:?}, expected Strategy", e)));
                    return false;
                }
                return true;
            }
            // non-empty, non-constant, rejected: must be the Strategy error; and some data must be accepted
            if !e.is_strategy() {
                acc.violation("error_kind", None, cj(format!("non-constant data rejected with {:?}", e)));
                return false;
            }
            let (mnv, mxv) = (mn.unwrap(), mx.unwrap());
            let must_accept = S::SNAME != "FreedmanDiaconis" && if T::FLOAT { (mxv.f() - mnv.f()) / (n as f64 + 1.0) > 0.0 } else { mxv.f() - mnv.f() >= 2.0 * n as f64 + 2.0 };
            if must_accept {
                acc.violation("acceptance", None, cj("non-constant data with range >= 2n (ints) / > 0 (floats) was rejected although range / n_bins is a positive width".into()));
                return false;
            }
            acc.count("rejected_strategy_error");
            return true;
        }
        Ok(s) => s,
    };
    if n == 0 || mn == mx {
        acc.violation("error_kind", None, cj("empty or constant data was accepted".into()));
        return false;
    }
    let (mnv, mxv) = (mn.unwrap(), mx.unwrap());
    let w = strat.width();
    if !(w > T::zero()) {
        acc.violation("width", None, cj(format!("accepted with non-positive width {}", w.show())));
        return false;
    }
    let expected_bins = (mxv.f() - mnv.f()) / w.f() + 2.0;
    if !(expected_bins <= 200_000.0) {
        acc.count("skipped_more_than_2e5_bins");
        SKIPPED.with(|s| s.set(true));
        return true;
    }
    // ---- build()/n_bins() with the counting type under a budget in element operations
    let cstrat = cb.ok().unwrap();
    let budget = 60 * (expected_bins as u64 + 4) * (((expected_bins as u64 + 4) as f64).log2().ceil() as u64 + 1) + 100_000;
    set_budget(budget);
    let cres = catch(|| {
        let nb = cstrat.n_bins();
        let b = cstrat.build();
        (nb, b.len())
    });
    let used = steps_used();
    set_budget(u64::MAX);
    acc.max("max_steps_over_budget_ratio", used as f64 / budget as f64);
    match cres {
        Err(m) => {
            acc.violation(if m == BUDGET_MSG { "termination" } else { "no_panic" }, None, cj(format!("n_bins()/build() with the counting element type: {} (budget {} element operations for about {} expected bins, width {})", m, budget, expected_bins as u64, w.show())));
            return false;
        }
        Ok(_) => {}
    }
    let r = catch(|| (strat.n_bins(), strat.build()));
    let (nb, bins) = match r {
        Err(m) => {
            acc.violation("no_panic", None, cj(format!("n_bins()/build() panicked: {}", m)));
            return false;
        }
        Ok(x) => x,
    };
    let nbins = bins.len();
    if nbins == 0 {
        acc.violation("geometry", None, cj("no bins built".into()));
        return false;
    }
    let first = bins.index(0).start;
    let last = bins.index(nbins - 1).end;
    let m_mag = mnv.f().abs().max(last.f().abs());
    let tol = if T::FLOAT { 4.0 * ulp(m_mag) } else { 0.0 };
    let separable = !T::FLOAT || w.f() >= tol;
    if first != mnv {
        acc.violation("first_edge", None, cj(format!("first edge {} != data minimum {}", first.show(), mnv.show())));
        return false;
    }
    if !(last > mxv) {
        acc.violation("last_edge", None, cj(format!("last edge {} is not strictly above the data maximum {} (width {}, {} bins)", last.show(), mxv.show(), w.show(), nbins)));
        return false;
    }
    let over = match (last.int(), mxv.int(), w.int()) {
        (Some(l), Some(m), Some(ww)) => l - m > ww,
        _ => last.f() - mxv.f() > w.f() + tol,
    };
    if over {
        acc.violation("last_edge", None, cj(format!("last edge {} exceeds the maximum {} by more than one bin width {}", last.show(), mxv.show(), w.show())));
        return false;
    }
    // the discrete form of "ends above the maximum by at most one bin width": the maximum lies in the LAST bin
    // (the edge before the last one is not above the maximum)
    if separable && bins.index_of(&mxv) != Some(nbins - 1) {
        acc.violation("last_edge", None, cj(format!("the data maximum {} falls into bin {:?} of {}: the last bin [{}, {}) lies entirely above it", mxv.show(), bins.index_of(&mxv), nbins, bins.index(nbins - 1).start.show(), last.show())));
        return false;
    }
    if separable {
        for i in 0..nbins {
            let r = bins.index(i);
            let d = r.end.f() - r.start.f();
            let unequal = match (r.end.int(), r.start.int(), w.int()) {
                (Some(e), Some(st), Some(ww)) => e - st != ww,
                _ => (d - w.f()).abs() > tol,
            };
            if unequal {
                acc.violation("equal_width", None, cj(format!("bin {} = [{}, {}) has width {} but bin_width() = {}", i, r.start.show(), r.end.show(), d, w.show())));
                return false;
            }
        }
        if nb != nbins {
            acc.violation("n_bins", None, cj(format!("n_bins() = {} but build() made {} bins", nb, nbins)));
            return false;
        }
    } else {
        acc.count("width_below_4ulp_geometry_relaxed");
    }
    for x in data {
        if bins.index_of(x).is_none() {
            acc.violation("coverage", None, cj(format!("observation {} falls into no bin (first edge {}, last edge {})", x.show(), first.show(), last.show())));
            return false;
        }
    }
    acc.count(&format!("accepted_{}", S::SNAME));
    true
}

fn c12_grid<T: HElem, S: Strat<Elem = T>>(acc: &mut Acc, cols: &[Vec<T>], rng: &mut Rng) -> bool {
    let d = cols.len();
    let n = cols[0].len();
    let flat: Vec<T> = (0..n).flat_map(|i| (0..d).map(move |j| (i, j))).map(|(i, j)| cols[j][i]).collect();
    let lay = match rng.below(3) {
        0 => Layout::canonical(2),
        1 => Layout::fortran(2),
        _ => Layout::random(2, rng),
    };
    let e = Embedded::new(&[n, d], &flat, lay.clone());
    let v = e.view().into_dimensionality::<Ix2>().unwrap();
    acc.eval();
    let cj = |what: String| J::obj(vec![("strategy", J::s(S::SNAME)), ("elem", J::s(T::NAME)), ("n", J::u(n)), ("columns", J::u(d)), ("layout", lay.to_json()), ("first_column", J::A(cols[0].iter().take(32).map(|x| J::s(x.show())).collect())), ("what", J::s(what))]);
    set_pivots(Pivots::Natural);
    let r = catch(|| GridBuilder::<S>::from_array(&v).map(|b| b.build()));
    match r {
        Err(m) => {
            acc.violation("no_panic", None, cj(format!("GridBuilder panicked: {}", m)));
            false
        }
        Ok(Err(_)) => {
            acc.count("grid_rejected");
            true
        }
        Ok(Ok(grid)) => {
            if grid.ndim() != d {
                acc.violation("grid", None, cj(format!("grid has {} axes for {} columns", grid.ndim(), d)));
                return false;
            }
            // the counts array has one cell per combination of bins: keep it allocatable
            let cells: u128 = grid.shape().iter().map(|&b| b as u128).product();
            if cells > 4_000_000 {
                acc.count("grid_too_many_cells_skipped");
                return true;
            }
            let h = v.histogram(grid);
            let total: usize = h.counts().sum();
            if total != n {
                acc.violation("histogram_total", None, cj(format!("histogram over the strategy-built grid counts {} of {} observations", total, n)));
                return false;
            }
            acc.count("grid_accepted");
            true
        }
    }
}

fn gen_data<T: HElem>(rng: &mut Rng, n: usize, class: usize) -> (Vec<T>, &'static str) {
    // values that do not fit a narrow element type (u16) are folded back into its range
    // a narrow element type (u16) keeps its data in 0..20000 so that max + 2*range stays representable (in scope)
    let narrow = T::from_i64(70_000).is_none();
    let fi = |x: i64| T::from_i64(if narrow { x.rem_euclid(20_000) } else { x }).unwrap();
    if T::FLOAT {
        let ff = |x: f64| T::from_f64(x).unwrap();
        match class % 14 {
            0 => ((0..n).map(|i| ff(i as f64 * 0.1)).collect(), "i*0.1"),
            1 => ((0..n).map(|_| ff(rng.range(0, 1000) as f64 / 100.0)).collect(), "k/100"),
            2 => ((0..n).map(|_| ff(1.0e6 + rng.range(0, 100) as f64 * 0.01)).collect(), "1e6 + k*0.01"),
            3 => ((0..n).map(|i| ff(1.0 + (i % 3) as f64 * f64::EPSILON)).collect(), "1 + {0,1,2}*eps (width below an ulp)"),
            4 => ((0..n).map(|_| ff(if rng.chance(0.8) { 5.0 } else { rng.range(0, 10) as f64 })).collect(), "heavy ties (zero IQR)"),
            5 => ((0..n).map(|_| ff(rng.normal())).collect(), "normal, sign-crossing"),
            6 => ((0..n).map(|_| ff(rng.normal() * 1e6)).collect(), "magnitude 1e6"),
            7 => ((0..n).map(|_| ff(rng.normal() * 1e-6)).collect(), "magnitude 1e-6"),
            8 => ((0..n).map(|i| ff(i as f64 * 0.001)).collect(), "i*0.001"),
            9 => ((0..n).map(|_| ff(rng.unit() * 10f64.powi(rng.range(-3, 3) as i32))).collect(), "mixed magnitudes"),
            10 => ((0..n).map(|i| ff((i + 1) as f64 * 0.1)).collect(), "(i+1)*0.1 (ramp, non-zero minimum)"),
            11 => ((0..n).map(|i| ff(1.0e6 + i as f64 * 0.01)).collect(), "1e6 + i*0.01 (ramp)"),
            12 => {
                let a = rng.range(1, 50) as f64 * 0.1;
                let h = *rng.pick(&[0.1, 0.01, 0.3, 0.7, 1.1]);
                ((0..n).map(|i| ff(a + i as f64 * h)).collect(), "a + i*h (ramp, decimal a and h)")
            }
            _ => {
                let a = -(rng.range(1, 50) as f64) * 0.1;
                ((0..n).map(|i| ff(a + i as f64 * 0.1)).collect(), "negative start ramp")
            }
        }
    } else {
        let nonneg = T::from_i64(-1).is_none();
        let off = if nonneg { 1000 } else { 0 };
        match class % 9 {
            0 => ((0..n).map(|i| fi(off + i as i64)).collect(), "0..n"),
            1 => ((0..n).map(|_| fi(off + rng.range(0, 10))).collect(), "small range (often width 0)"),
            2 => ((0..n).map(|_| fi(off + rng.range(0, 10 * n as i64 + 10))).collect(), "range 10n"),
            3 => ((0..n).map(|_| fi(if nonneg { rng.range(0, 2000) } else { rng.range(-1000, 1000) })).collect(), "sign-crossing"),
            4 => ((0..n).map(|_| fi(off + if rng.chance(0.8) { 500 } else { rng.range(0, 1000) })).collect(), "heavy ties (zero IQR)"),
            5 => ((0..n).map(|_| fi(if nonneg { rng.range(0, 30000) } else { rng.range(-1_000_000, 1_000_000) })).collect(), "wide"),
            6 => ((0..n).map(|i| fi(off + (i as i64 % 7) * 37)).collect(), "7 levels"),
            7 => {
                if rng.chance(0.5) {
                    ((0..n).map(|_| fi(off + (rng.normal() * 100.0) as i64 + 400)).collect(), "rounded normal")
                } else {
                    // two or three adjacent heavy levels plus a few values elsewhere: a small POSITIVE inter-quartile range
                    let base = off + rng.range(3, 200);
                    let lv = 2 + rng.range(0, 2);
                    ((0..n).map(|_| fi(if rng.chance(0.9) { base + rng.range(0, lv) } else { off + rng.range(0, 400) })).collect(), "adjacent heavy levels (inter-quartile range 1 or 2)")
                }
            }
            _ => {
                // 64-bit data spanning a large part of the type; max + range (>= any bin width) and twice the range stay
                // representable, as the property requires
                if T::from_i64(6_000_000_000_000_000_000).is_some() && T::from_usize(usize::MAX).is_none() {
                    if n >= 10 && rng.chance(0.5) {
                        // with >= 10 observations every prescribed width is at most a third of the range
                        ((0..n).map(|_| fi((rng.unit() * 6.0e18) as i64)).collect(), "i64 in [0, 6e18], n >= 10")
                    } else if rng.chance(0.5) {
                        ((0..n).map(|_| fi((rng.unit() * 3.0e18) as i64)).collect(), "i64 in [0, 3e18]")
                    } else {
                        ((0..n).map(|_| fi(((rng.unit() - 0.5) * 3.0e18) as i64)).collect(), "i64 in [-1.5e18, 1.5e18]")
                    }
                } else {
                    ((0..n).map(|_| fi(off + rng.range(0, 20_000))).collect(), "range 2e4")
                }
            }
        }
    }
}

fn c12_case<T: HElem>(rng: &mut Rng, acc: &mut Acc, thorough: bool) {
    let sizes: &[usize] = if thorough { &[0, 1, 2, 3, 5, 8, 10, 31, 41, 48, 100, 333, 1000, 10_000] } else { &[0, 1, 2, 3, 5, 8, 10, 31, 41, 48, 100, 333, 1000] };
    let mut n = *rng.pick(sizes);
    if n == 10_000 && !rng.chance(0.1) {
        n = 100;
    }
    if n == 1000 && !rng.chance(0.3) {
        n = 31;
    }
    let class = rng.below(14);
    let (data, cname) = gen_data::<T>(rng, n, class);
    acc.count(&format!("elem_{}", T::NAME));
    acc.count(&format!("n_{}", n));
    let mut ok = true;
    SKIPPED.with(|s| s.set(false));
    ok &= c12_one::<T, Sqrt<T>, Sqrt<Counted<T>>>(acc, &data, cname, false);
    ok &= c12_one::<T, Rice<T>, Rice<Counted<T>>>(acc, &data, cname, false);
    ok &= c12_one::<T, Sturges<T>, Sturges<Counted<T>>>(acc, &data, cname, false);
    // data spanning most of i64: with >= 10 observations the prescribed widths of Sqrt / Rice / Sturges are at most a
    // third of the range (max + width representable: in scope), but the Freedman-Diaconis width 2*IQR/n^(1/3) may not
    // be (and 2*IQR itself may overflow): outside the property's scope, not judged
    let fd_in_scope = !cname.starts_with("i64 in [0, 6e18]");
    if fd_in_scope {
        ok &= c12_one::<T, FreedmanDiaconis<T>, FreedmanDiaconis<Counted<T>>>(acc, &data, cname, false);
        ok &= c12_one::<T, Auto<T>, Auto<Counted<T>>>(acc, &data, cname, false);
    } else {
        acc.count("fd_auto_out_of_scope_skipped");
    }
    if ok && n >= 2 && fd_in_scope && !SKIPPED.with(|s| s.get()) {
        // every column is a rearrangement of the judged data set (same bins per axis, termination already
        // established under the step budget), so the bare-type grid build below cannot hang
        let d = 1 + rng.below(3);
        let mut cols = vec![data.clone()];
        for j in 1..d {
            let mut c2 = data.clone();
            if j == 1 {
                c2.reverse();
            } else {
                rng.shuffle(&mut c2);
            }
            cols.push(c2);
        }
        match rng.below(5) {
            0 => c12_grid::<T, Sqrt<T>>(acc, &cols, rng),
            1 => c12_grid::<T, Rice<T>>(acc, &cols, rng),
            2 => c12_grid::<T, Sturges<T>>(acc, &cols, rng),
            3 => c12_grid::<T, FreedmanDiaconis<T>>(acc, &cols, rng),
            _ => c12_grid::<T, Auto<T>>(acc, &cols, rng),
        };
    }
    if n >= 2 {
        acc.nontrivial(h64(&(T::NAME, data.iter().map(|x| x.bits()).collect::<Vec<_>>())));
    }
    acc.sample(|| J::obj(vec![("elem", J::s(T::NAME)), ("n", J::u(n)), ("data_class", J::s(cname)), ("head", J::A(data.iter().take(8).map(|x| J::s(x.show())).collect()))]));
}

fn main() {
    let args = Args::parse();
    let prop = args.prop.clone();
    let thorough = args.thorough();
    let r = Runner::new(args);

    if prop == "C13" {
        // exhaustive: all sequences of length 0..L over {0..5}
        let maxlen = if thorough { 6 } else { 5 };
        let mut offsets = vec![0u64];
        for l in 0..=maxlen {
            offsets.push(offsets[l] + 6u64.pow(l as u32));
        }
        let total = *offsets.last().unwrap();
        r.section("edges_exh", total, |k, _rng, acc| {
            let l = (0..=maxlen).find(|&l| k < offsets[l + 1]).unwrap();
            let seq = seq_from_index(k - offsets[l], l, 6);
            // i32 with doubled values so that the half-way probes are integers
            let e32: Vec<i32> = seq.iter().map(|&x| x as i32 * 2).collect();
            let p32: Vec<i32> = (-2..=12).collect();
            let ok = c13_edges(acc, &e32, &p32, 0, &77, "i32") && c13_edges(acc, &e32, &p32, 1, &77, "i32") && c13_edges(acc, &e32, &p32, 2, &77, "i32") && c13_edges(acc, &e32, &p32, 3, &77, "i32");
            if ok {
                let e64: Vec<N64> = seq.iter().map(|&x| n64(x as f64)).collect();
                let p64: Vec<N64> = (-2..=12).map(|x| n64(x as f64 * 0.5)).collect();
                c13_edges(acc, &e64, &p64, (k % 4) as usize, &n64(77.0), "N64");
                if thorough {
                    let et: Vec<Tracked> = seq.iter().enumerate().map(|(i, &x)| Tracked { key: x as u8 * 2, id: i as u16 }).collect();
                    let pt: Vec<Tracked> = (0..=12).map(|x| Tracked { key: x as u8, id: 999 }).collect();
                    // Tracked compares by key only: Debug output shows ids, equality ignores them
                    c13_edges(acc, &et, &pt, (k % 4) as usize, &Tracked { key: 250, id: 7 }, "Tracked");
                }
            }
            acc.exact_nontrivial += if l >= 2 { 1 } else { 0 };
            if k % 997 == 0 {
                acc.sample(|| J::obj(vec![("edges_input", J::s(format!("{:?}", e32))), ("probes", J::s("-2..=12 (halves of the doubled values included)"))]));
            }
        });
        r.section("grids", r.args.n(5_000, 200_000), |_k, rng, acc| c13_grid(rng, acc));
        // grids whose NUMBER OF CELLS does not fit a machine word (many axes, or a few axes with very many bins):
        // shape, index and index_of are per-axis notions and must keep working
        r.section("huge_grids", r.args.n(60, 1_500), |k, rng, acc| {
            let (nd, nbins): (usize, Vec<usize>) = match k % 3 {
                0 => {
                    let nd = *rng.pick(&[40usize, 63, 64, 65, 70, 100]);
                    (nd, (0..nd).map(|_| 2 + rng.below(2)).collect())
                }
                1 => (4, vec![65_536, 65_536, 65_536, 65_537]),
                _ => {
                    let nd = 5 + rng.below(4);
                    (nd, (0..nd).map(|_| 1usize << (9 + rng.below(6))).collect())
                }
            };
            // axis a: edges first_a, first_a + step_a, ... (nbins[a] + 1 edges)
            let first: Vec<i64> = (0..nd).map(|_| rng.range(-5, 5)).collect();
            let step: Vec<i64> = (0..nd).map(|_| 1 + rng.range(0, 3)).collect();
            let grid = Grid::from((0..nd).map(|a| Bins::new(Edges::from((0..=nbins[a] as i64).map(|i| first[a] + i * step[a]).collect::<Vec<i64>>()))).collect::<Vec<_>>());
            let cj = |what: String| J::obj(vec![("axes", J::u(nd)), ("bins_per_axis", J::s(format!("{:?}", &nbins[..nd.min(8)]))), ("what", J::s(what))]);
            acc.eval();
            match catch(|| (grid.ndim(), grid.shape())) {
                Ok((d, sh)) if d == nd && sh == nbins => {}
                other => {
                    acc.violation("grid_shape", None, cj(format!("ndim / shape: {:?}", other.map(|x| (x.0, x.1.len())))));
                    return;
                }
            }
            for _ in 0..12 {
                let idx: Vec<usize> = (0..nd).map(|a| match rng.below(4) { 0 => 0, 1 => nbins[a] - 1, _ => rng.below(nbins[a]) }).collect();
                let pt: Vec<i64> = (0..nd).map(|a| first[a] + idx[a] as i64 * step[a] + if step[a] > 1 && rng.chance(0.5) { 1 } else { 0 }).collect();
                acc.evals += 2;
                match catch(|| grid.index_of(&Array1::from(pt.clone()))) {
                    Ok(Some(found)) if found == idx => {}
                    other => {
                        acc.violation("grid_index_of", None, cj(format!("Grid::index_of(point inside cell {:?}...) = {:?}", &idx[..nd.min(6)], other.map(|o| o.map(|v| v[..nd.min(6)].to_vec())))));
                        return;
                    }
                }
                match catch(|| grid.index(&idx)) {
                    Ok(rs) if rs.len() == nd && (0..nd).all(|a| rs[a].start == first[a] + idx[a] as i64 * step[a] && rs[a].end == first[a] + (idx[a] as i64 + 1) * step[a]) => {}
                    other => {
                        acc.violation("grid_index", None, cj(format!("Grid::index({:?}...) = {:?}", &idx[..nd.min(6)], other.map(|v| v.len()))));
                        return;
                    }
                }
                // a point outside on one axis is in no cell
                let mut out = pt.clone();
                let a = rng.below(nd);
                out[a] = if rng.chance(0.5) { first[a] - 1 } else { first[a] + nbins[a] as i64 * step[a] };
                acc.eval();
                if catch(|| grid.index_of(&Array1::from(out.clone()))) != Ok(None) {
                    acc.violation("grid_index_of", None, cj(format!("a point outside axis {} was given a cell", a)));
                    return;
                }
            }
            acc.nontrivial(h64(&(nd, &nbins, &first, &step)));
            acc.sample(|| cj("sample".into()));
        });
        // long edge collections: every ordered PAIR of probes on one object (the second answer must not depend on the first)
        r.section("long_edges_pairs", r.args.n(300, 10_000), |_k, rng, acc| {
            let many = rng.chance(0.2);
            let ne = 5 + rng.below(if many { 200 } else { 30 });
            let gap = 1 + rng.below(3) as i32;
            let mut input: Vec<i32> = (0..ne as i32).map(|i| i * 2 * gap).collect();
            // arrangement of the input: increasing, decreasing, shuffled; repeated values either next to their twin
            // (the input stays monotone, not strictly) or appended at the end
            let arrangement = rng.below(4);
            if rng.chance(0.5) {
                for _ in 0..1 + rng.below(3) {
                    let j = rng.below(input.len());
                    let d = input[j];
                    input.insert(j, d);
                }
            }
            match arrangement {
                0 => {}
                1 => input.reverse(),
                _ => rng.shuffle(&mut input),
            }
            if rng.chance(0.3) {
                let d = input[rng.below(ne)];
                input.push(d);
            }
            let model: Vec<i32> = input.iter().cloned().collect::<BTreeSet<i32>>().into_iter().collect();
            let bins = Bins::new(Edges::from(input.clone()));
            let edges = Edges::from(input.clone());
            // probes: below, on edges, strictly inside bins, above
            let mut probes: Vec<i32> = vec![-1, model[0], *model.last().unwrap(), *model.last().unwrap() + 1];
            for _ in 0..24 {
                let b = rng.below(model.len());
                probes.push(model[b] + if rng.chance(0.6) { 1 } else { 0 });
            }
            for a in 0..probes.len() {
                for b in 0..probes.len() {
                    acc.eval();
                    let _ = bins.index_of(&probes[a]);
                    let _ = edges.indices_of(&probes[a]);
                    let want = model_bin(&model, &probes[b]);
                    let got = bins.index_of(&probes[b]);
                    let got2 = edges.indices_of(&probes[b]);
                    if got != want || got2 != want.map(|i| (i, i + 1)) {
                        acc.violation("lookup_history", None, J::obj(vec![("edges", J::s(format!("{} edges, spacing {}", model.len(), 2 * gap))), ("first_probe", J::I(probes[a] as i128)), ("second_probe", J::I(probes[b] as i128)), ("what", J::s(format!("after looking up {}, index_of({}) = {:?} / indices_of = {:?}, expected bin {:?}", probes[a], probes[b], got, got2, want)))]));
                        return;
                    }
                }
            }
            acc.nontrivial(h64(&input));
            acc.count("edge_sets_with_all_probe_pairs");
        });
    }

    if prop == "C11" {
        // exhaustive: d <= 2, <= 4 edges per axis over {0,2,4,6}: all single observations from the candidate set,
        // fed as ONE history (every candidate point in order), counts compared after every insert
        let subsets: Vec<Vec<i32>> = (0u32..16).map(|m| (0..4).filter(|b| m >> b & 1 == 1).map(|b| b as i32 * 2).collect()).collect();
        r.section("exh_1d_2d", (16 + 16 * 16) as u64, |k, rng, acc| {
            let axes: Vec<Vec<i32>> = if k < 16 { vec![subsets[k as usize].clone()] } else { vec![subsets[(k as usize - 16) / 16].clone(), subsets[(k as usize - 16) % 16].clone()] };
            let cands: Vec<Vec<i32>> = axes.iter().map(|a| candidates(a)).collect();
            let mut obs: Vec<Vec<i32>> = vec![];
            if axes.len() == 1 {
                for &c in &cands[0] {
                    obs.push(vec![c]);
                }
            } else {
                for &c0 in &cands[0] {
                    for &c1 in &cands[1] {
                        obs.push(vec![c0, c1]);
                    }
                }
            }
            c11_history(acc, &axes, &obs, "i32", true, rng);
            acc.exact_nontrivial += obs.len() as u64;
            acc.sample(|| J::obj(vec![("axes_edges", J::s(format!("{:?}", axes))), ("observations", J::s(format!("{:?}", &obs[..obs.len().min(12)])))]));
        });
        r.section("random_histories", r.args.n(20_000, 1_000_000), |k, rng, acc| {
            let nd = 1 + rng.below(3);
            let mut axes: Vec<Vec<i32>> = vec![];
            for _ in 0..nd {
                let ne = rng.below(7);
                let mut e: Vec<i32> = (0..ne).map(|_| rng.range(0, 8) as i32 * 2).collect();
                if rng.chance(0.5) {
                    e.sort();
                }
                axes.push(e);
            }
            let long = rng.chance(0.1);
            let len = 1 + rng.below(if long { 200 } else { 40 });
            let obs: Vec<Vec<i32>> = (0..len).map(|_| (0..nd).map(|_| rng.range(-2, 17) as i32).collect()).collect();
            if k % 2 == 0 {
                c11_history(acc, &axes, &obs, "i32", rng.chance(0.5), rng);
            } else {
                let axes64: Vec<Vec<N64>> = axes.iter().map(|a| a.iter().map(|&x| n64(x as f64 * 0.25)).collect()).collect();
                let obs64: Vec<Vec<N64>> = obs.iter().map(|o| o.iter().map(|&x| n64(x as f64 * 0.125)).collect()).collect();
                c11_history(acc, &axes64, &obs64, "N64", rng.chance(0.5), rng);
            }
            acc.nontrivial(h64(&(k % 2, &axes, &obs)));
            acc.count(&format!("axes_{}", nd));
        });
    }

    if prop == "C11" {
        // axes with many bins (up to 200) and observation matrices with more than 4096 rows
        r.section("long_axes_tall_matrices", r.args.n(120, 4_000), |k, rng, acc| {
            let nd = 1 + rng.below(2);
            let mut axes: Vec<Vec<i32>> = vec![];
            for a in 0..nd {
                let ne = if a == 0 { 60 + rng.below(150) } else { rng.below(5) };
                let mut e: Vec<i32> = (0..ne as i32).map(|i| i * 2).collect();
                if rng.chance(0.5) {
                    rng.shuffle(&mut e);
                }
                axes.push(e);
            }
            let tall = k % 4 == 0;
            let len = if tall { *rng.pick(&[4097usize, 5000, 8193, 4096, 9000]) } else { 50 + rng.below(300) };
            let hi0 = axes[0].len() as i64 * 2 + 2;
            let mut obs: Vec<Vec<i32>> = Vec::with_capacity(len);
            let mut cur = rng.range(0, hi0);
            for _ in 0..len {
                // local moves (neighbouring bins), far jumps and rejected points
                cur = match rng.below(6) {
                    0 => rng.range(-3, hi0),
                    1 => -1,
                    _ => (cur + rng.range(-40, 40)).clamp(-2, hi0),
                };
                let mut o = vec![cur as i32];
                for _ in 1..nd {
                    o.push(rng.range(-1, 9) as i32);
                }
                obs.push(o);
            }
            if tall {
                // matrix form only (the per-insert comparison of a 9000-insert history is covered by shorter ones)
                c11_matrix_only(acc, &axes, &obs, rng);
            } else {
                c11_history(acc, &axes, &obs, "i32", true, rng);
            }
            acc.nontrivial(h64(&(&axes, obs.len(), &obs[..obs.len().min(50)])));
            acc.count(if tall { "tall_matrices" } else { "long_axis_histories" });
        });
    }

    if prop == "C11" {
        // peaked samples: one cell receives more rows of a single matrix than a narrow (8/16-bit) counter can hold
        r.section("peaked_matrices", r.args.n(8, 60), |k, rng, acc| {
            let nd = 1 + rng.below(2);
            let mut axes: Vec<Vec<i32>> = vec![];
            for _ in 0..nd {
                let ne = 2 + rng.below(5);
                axes.push((0..ne as i32).map(|i| i * 3).collect());
            }
            let len = match k % 4 {
                0 => 65_536 + rng.below(4) + if rng.chance(0.5) { 0 } else { 4_000 },
                1 => 70_000 + rng.below(30_000),
                2 => 131_072 + rng.below(5_000),
                _ => 256 + rng.below(600),
            };
            let hot: Vec<i32> = axes.iter().map(|e| rng.range(0, (e.len() as i64 - 1) * 3 - 1) as i32).collect();
            let spread = *rng.pick(&[0usize, 50, 1000]);
            let mut obs: Vec<Vec<i32>> = Vec::with_capacity(len);
            for _ in 0..len {
                if spread > 0 && rng.below(spread) == 0 {
                    obs.push(axes.iter().map(|e| rng.range(-2, e.len() as i64 * 3 + 2) as i32).collect());
                } else {
                    obs.push(hot.clone());
                }
            }
            c11_matrix_only(acc, &axes, &obs, rng);
            acc.nontrivial(h64(&(&axes, obs.len(), &hot, spread)));
            acc.count("peaked_matrices");
        });
    }

    if prop == "C12" {
        r.section("strategies", r.args.n(30_000, 600_000), |k, rng, acc| match k % 6 {
            0 => c12_case::<i32>(rng, acc, thorough),
            1 => c12_case::<i64>(rng, acc, thorough),
            2 => c12_case::<u16>(rng, acc, thorough),
            3 => c12_case::<usize>(rng, acc, thorough),
            _ => c12_case::<N64>(rng, acc, thorough),
        });
    }
    if prop == "C12" {
        // Freedman-Diaconis / Auto on short one-decimal lattices with mixed signs: range / width lands within an ulp of
        // an integer for a small fraction of these sets
        r.section("fd_decimal_lattice", r.args.n(200_000, 3_000_000), |_k, rng, acc| {
            let n = *rng.pick(&[8usize, 8, 8, 8, 8, 7, 9, 12]);
            let data: Vec<N64> = (0..n).map(|_| n64(rng.range(-300, 300) as f64 / 10.0)).collect();
            SKIPPED.with(|s| s.set(false));
            c12_one::<N64, FreedmanDiaconis<N64>, FreedmanDiaconis<Counted<N64>>>(acc, &data, "one-decimal lattice, mixed signs", false);
            c12_one::<N64, Auto<N64>, Auto<Counted<N64>>>(acc, &data, "one-decimal lattice, mixed signs", false);
            acc.nontrivial(h64(&data.iter().map(|x| x.raw().to_bits()).collect::<Vec<_>>()));
        });
    }
    if prop == "C12" {
        // a tight cluster plus two far outliers: the Freedman-Diaconis width follows the small inter-quartile range,
        // so covering the outliers takes 7*10^4 .. 1.8*10^5 bins (still below the harness's own limit of 2*10^5)
        r.section("fd_many_bins", r.args.n(90, 2_000), |k, rng, acc| match k % 3 {
            0 => c12_many_bins::<i64>(rng, acc),
            1 => c12_many_bins::<i32>(rng, acc),
            _ => c12_many_bins::<N64>(rng, acc),
        });
    }
    r.finish("hist", vec![]);
}

fn c12_many_bins<T: HElem>(rng: &mut Rng, acc: &mut Acc) {
    let n = *rng.pick(&[5usize, 9, 30, 100, 1000]);
    let d = if T::FLOAT { *rng.pick(&[0.37, 1.0, 0.01]) } else { 1.0 };
    // cluster c + j*d, j = 0..n-2, then two outliers; the estimate of the width only sizes the outliers' distance
    let m = n - 2;
    let lo_i = ((0.25 * (n - 1) as f64).round() as usize).max(1) - 1; // rank inside the cluster (outlier below occupies rank 0)
    let hi_i = ((0.75 * (n - 1) as f64).round() as usize).min(n - 2) - 1;
    let iqr = (hi_i - lo_i) as f64 * d;
    let denom = if T::FLOAT { (n as f64).cbrt() } else { (n as f64).cbrt().floor().max(1.0) };
    let width_est = if T::FLOAT { 2.0 * iqr / denom } else { (2.0 * iqr / denom).floor() };
    if !(width_est > 0.0) {
        return;
    }
    let bins_target = 70_000.0 + rng.unit() * 110_000.0;
    let span = (m - 1) as f64 * d;
    let reach = ((bins_target * width_est - span) / 2.0).max(width_est);
    let c = reach.ceil() + 10.0; // keeps every value non-negative
    let mut vals: Vec<f64> = (0..m).map(|j| c + j as f64 * d).collect();
    vals.push(c - reach.floor());
    vals.push(c + span + reach.floor());
    rng.shuffle(&mut vals);
    let data: Vec<T> = match vals.iter().map(|&v| if T::FLOAT { T::from_f64(v) } else { T::from_i64(v as i64) }).collect::<Option<Vec<T>>>() {
        Some(dv) => dv,
        None => return,
    };
    acc.count(&format!("elem_{}", T::NAME));
    SKIPPED.with(|s| s.set(false));
    let cname = "tight cluster + two far outliers (7e4..1.8e5 Freedman-Diaconis bins)";
    c12_one::<T, FreedmanDiaconis<T>, FreedmanDiaconis<Counted<T>>>(acc, &data, cname, false);
    c12_one::<T, Auto<T>, Auto<Counted<T>>>(acc, &data, cname, false);
    if SKIPPED.with(|s| s.get()) {
        acc.count("many_bins_case_over_harness_limit");
    } else {
        acc.count("many_bins_case_judged");
    }
    acc.nontrivial(h64(&(T::NAME, data.iter().map(|x| x.bits()).collect::<Vec<_>>())));
    acc.sample(|| J::obj(vec![("elem", J::s(T::NAME)), ("n", J::u(n)), ("data_class", J::s(cname)), ("width_estimate", J::F(width_est)), ("head", J::A(data.iter().take(8).map(|x| J::s(x.show())).collect()))]));
}
