//! Driver `sel`: selection / partitioning monitors.
//!   C02  selection returns the true order statistic under every pivot sequence
//!   C15  partition_mut places the pivot at its sorted rank
//!   C16  out-of-range positions always rejected, in-range never
#![allow(clippy::all)]
use ndarray::prelude::*;
use ndarray_stats::histogram::{Bins, Edges, Grid};
use ndarray_stats::Sort1dExt;
use noisy_float::types::{n64, N64};
use vharness::*;

fn tracked(pattern: &[u8]) -> Vec<Tracked> {
    pattern
        .iter()
        .enumerate()
        .map(|(i, &k)| Tracked {
            key: k,
            id: i as u16,
        })
        .collect()
}

fn budget_for(n: usize) -> u64 {
    60 * ((n as u64 + 2) * (n as u64 + 2)) + 500
}

fn ids_sorted(v: &[Tracked]) -> Vec<u16> {
    let mut x: Vec<u16> = v.iter().map(|t| t.id).collect();
    x.sort_unstable();
    x
}

fn lay1(step: isize, pad_b: usize, pad_a: usize) -> Layout {
    Layout {
        perm: vec![0],
        step: vec![step],
        pad_b: vec![pad_b],
        pad_a: vec![pad_a],
    }
}

fn keys(v: &[Tracked]) -> Vec<u8> {
    v.iter().map(|t| t.key).collect()
}

/// All patterns of lengths lo..=hi, concatenated
fn patterns(lo: usize, hi: usize) -> Vec<Vec<u8>> {
    let mut v = vec![];
    for n in lo..=hi {
        v.extend(weak_orders(n));
    }
    v
}

// ---------------------------------------------------------------------------
// single selection: one execution, all monitors
// ---------------------------------------------------------------------------
/// Executes get_from_sorted_mut(i) on `data` laid out by `lay` (None =
/// plain contiguous Array1) under the *currently installed* pivot policy and
/// judges it.  Returns false if a violation was recorded.
fn run_single(
    acc: &mut Acc,
    data: &[Tracked],
    sorted_keys: &[u8],
    i: usize,
    lay: Option<&Layout>,
    unwind_only: bool,
) -> bool {
    let n = data.len();
    acc.eval();
    let (res, after, guards_ok): (Result<Tracked, String>, Vec<Tracked>, bool) = match lay {
        None => {
            let mut a = Array1::from(data.to_vec());
            set_budget(budget_for(n));
            let r = catch(|| a.get_from_sorted_mut(i));
            set_budget(u64::MAX);
            (r, a.to_vec(), true)
        }
        Some(l) => {
            let mut e = Embedded::new(&[n], data, l.clone());
            let before = e.parent_bits();
            let mask = e.in_view_mask();
            let r = {
                let mut v = e.view_mut().into_dimensionality::<Ix1>().unwrap();
                set_budget(budget_for(n));
                let r = catch(|| v.get_from_sorted_mut(i));
                set_budget(u64::MAX);
                r
            };
            let afterb = e.parent_bits();
            let g = (0..before.len()).all(|p| mask[p] || before[p] == afterb[p]);
            (r, e.logical_now(), g)
        }
    };
    let fail = |acc: &mut Acc, monitor: &str, what: String| {
        let log = take_pivot_log();
        acc.violation(
            monitor,
            None,
            J::obj(vec![
                ("op", J::s("get_from_sorted_mut")),
                ("what", J::s(what)),
                ("input_keys", J::A(data.iter().map(|t| J::I(t.key as i128)).collect())),
                ("i", J::u(i)),
                (
                    "layout",
                    match lay {
                        None => J::s("contiguous"),
                        Some(l) => l.to_json(),
                    },
                ),
                (
                    "pivots",
                    J::A(log
                        .iter()
                        .map(|&(n, c)| J::A(vec![J::u(n), J::u(c)]))
                        .collect()),
                ),
                ("after", show_vec(&after)),
                (
                    "result",
                    match &res {
                        Ok(t) => J::s(t.show()),
                        Err(m) => J::s(format!("panic: {}", m)),
                    },
                ),
            ]),
        );
        false
    };
    match &res {
        Err(m) => {
            return fail(acc, "no_panic_in_range", format!("in-range call panicked: {}", m));
        }
        Ok(t) => {
            if unwind_only {
                return true;
            }
            if t.key != sorted_keys[i] {
                return fail(
                    acc,
                    "reference_sort",
                    format!("returned key {} but sorted[{}] = {}", t.key, i, sorted_keys[i]),
                );
            }
            if after[..i].iter().any(|x| x.key > t.key) {
                return fail(acc, "postcondition", "an element before position i is greater than the result".into());
            }
            if after[i..].iter().any(|x| x.key < t.key) {
                return fail(acc, "postcondition", "an element from position i on is smaller than the result".into());
            }
            if ids_sorted(&after) != ids_sorted(data) {
                return fail(acc, "multiset", "the array no longer holds the same elements".into());
            }
            if !guards_ok {
                return fail(acc, "guards", "a cell outside the view was modified".into());
            }
        }
    }
    true
}

fn single_exhaustive(acc: &mut Acc, pat: &[u8], lay: Option<&Layout>, unwind_only: bool, cap: u64) {
    let n = pat.len();
    let data = tracked(pat);
    let mut sk = pat.to_vec();
    sk.sort_unstable();
    for i in 0..n {
        let mut nseq = 0u64;
        let mut stop = false;
        let mut maxdepth = 0usize;
        let mut bad_branching = false;
        // the closure borrows acc mutably twice otherwise; use a cell
        let accc = std::cell::RefCell::new(&mut *acc);
        let (cnt, ok, capped) = enumerate_pivots(
            cap,
            || {
                if stop {
                    return;
                }
                let mut a = accc.borrow_mut();
                if !run_single(&mut a, &data, &sk, i, lay, unwind_only) {
                    // keep going a little to count, but do not flood
                    stop = a.violations_total > 200;
                }
            },
            |log| {
                nseq += 1;
                maxdepth = maxdepth.max(log.len());
                // enumerator self-check: branching factors strictly decrease
                for w in log.windows(2) {
                    if w[1].0 >= w[0].0 {
                        bad_branching = true;
                    }
                }
                if let Some(f) = log.first() {
                    if f.0 != n {
                        bad_branching = true;
                    }
                }
            },
        );
        drop(accc);
        if !ok {
            acc.harness_error("scripted pivot prefix not consumed (non-deterministic run?)".into());
        }
        if bad_branching && acc.violations_total == 0 {
            acc.harness_error(format!(
                "pivot hook branching factors not strictly decreasing for pattern {:?} i={}",
                pat, i
            ));
        }
        if capped {
            acc.count("pivot_enumeration_capped");
        }
        if n >= 2 {
            acc.exact_nontrivial += cnt;
        }
        acc.count_n("pivot_sequences", cnt);
        acc.max("max_pivot_sequence_len", maxdepth as f64);
        let _ = nseq;
    }
    acc.sample(|| {
        J::obj(vec![
            ("op", J::s("get_from_sorted_mut, every i, all pivot sequences")),
            ("pattern", J::A(pat.iter().map(|&x| J::I(x as i128)).collect())),
            (
                "layout",
                match lay {
                    None => J::s("contiguous"),
                    Some(l) => l.to_json(),
                },
            ),
        ])
    });
}

// ---------------------------------------------------------------------------
// bulk selection
// ---------------------------------------------------------------------------
/// Hands a request list to `f` as a 1-D array of positions in one of three representations: an owned
/// contiguous array, a reversed view, every second cell of a larger buffer (the request array's own layout must
/// not matter; the filler cells hold a huge position that would be out of range if it were read).
fn with_request<R>(req: &[usize], mode: usize, f: impl FnOnce(ArrayView1<'_, usize>) -> R) -> R {
    match mode % 3 {
        0 => {
            let a = Array1::from(req.to_vec());
            f(a.view())
        }
        1 => {
            let mut r = req.to_vec();
            r.reverse();
            let a = Array1::from(r);
            f(a.slice(ndarray::s![..;-1]))
        }
        _ => {
            let mut buf = vec![usize::MAX / 3; 2 * req.len() + 1];
            for (i, &x) in req.iter().enumerate() {
                buf[1 + 2 * i] = x;
            }
            let a = Array1::from(buf);
            f(a.slice(ndarray::s![1..1 + 2 * req.len();2]))
        }
    }
}

fn run_bulk(
    acc: &mut Acc,
    data: &[Tracked],
    sorted_keys: &[u8],
    request: &[usize],
    lay: Option<&Layout>,
    unwind_only: bool,
) -> bool {
    let n = data.len();
    acc.eval();
    // representation of the request array: chosen by the request's own content (deterministic per case)
    let rmode = request.iter().fold(request.len(), |a, &b| a.wrapping_mul(31).wrapping_add(b)) % 3;
    acc.count(&format!("request_array_representation_{}", rmode));
    let (res, after, guards_ok) = match lay {
        None => {
            let mut a = Array1::from(data.to_vec());
            set_budget(budget_for(n) * 4);
            let r = with_request(request, rmode, |req| catch(|| a.get_many_from_sorted_mut(&req)));
            set_budget(u64::MAX);
            (r, a.to_vec(), true)
        }
        Some(l) => {
            let mut e = Embedded::new(&[n], data, l.clone());
            let before = e.parent_bits();
            let mask = e.in_view_mask();
            let r = {
                let mut v = e.view_mut().into_dimensionality::<Ix1>().unwrap();
                set_budget(budget_for(n) * 4);
                let r = with_request(request, rmode, |req| catch(|| v.get_many_from_sorted_mut(&req)));
                set_budget(u64::MAX);
                r
            };
            let afterb = e.parent_bits();
            let g = (0..before.len()).all(|p| mask[p] || before[p] == afterb[p]);
            (r, e.logical_now(), g)
        }
    };
    let fail = |acc: &mut Acc, monitor: &str, what: String| {
        let log = take_pivot_log();
        acc.violation(
            monitor,
            None,
            J::obj(vec![
                ("op", J::s("get_many_from_sorted_mut")),
                ("what", J::s(what)),
                ("input_keys", J::A(data.iter().map(|t| J::I(t.key as i128)).collect())),
                ("request", J::us(request)),
                (
                    "layout",
                    match lay {
                        None => J::s("contiguous"),
                        Some(l) => l.to_json(),
                    },
                ),
                (
                    "pivots",
                    J::A(log
                        .iter()
                        .map(|&(n, c)| J::A(vec![J::u(n), J::u(c)]))
                        .collect()),
                ),
                (
                    "result",
                    match &res {
                        Ok(m) => J::A(m
                            .iter()
                            .map(|(k, v)| J::A(vec![J::u(*k), J::s(v.show())]))
                            .collect()),
                        Err(m) => J::s(format!("panic: {}", m)),
                    },
                ),
            ]),
        );
        false
    };
    match &res {
        Err(m) => return fail(acc, "no_panic_in_range", format!("in-range call panicked: {}", m)),
        Ok(map) => {
            if unwind_only {
                return true;
            }
            let mut want: Vec<usize> = request.to_vec();
            want.sort_unstable();
            want.dedup();
            let got_keys: Vec<usize> = map.keys().cloned().collect();
            if got_keys != want {
                return fail(
                    acc,
                    "bulk_keys",
                    format!("map keys (iteration order) {:?}, expected {:?}", got_keys, want),
                );
            }
            for (&idx, v) in map.iter() {
                if v.key != sorted_keys[idx] {
                    return fail(
                        acc,
                        "reference_sort",
                        format!("entry {} has key {} but sorted[{}] = {}", idx, v.key, idx, sorted_keys[idx]),
                    );
                }
            }
            if ids_sorted(&after) != ids_sorted(data) {
                return fail(acc, "multiset", "the array no longer holds the same elements".into());
            }
            if !guards_ok {
                return fail(acc, "guards", "a cell outside the view was modified".into());
            }
        }
    }
    true
}

fn bulk_exhaustive(acc: &mut Acc, pat: &[u8], unwind_only: bool, cap: u64, presentations: usize) {
    let n = pat.len();
    let data = tracked(pat);
    let mut sk = pat.to_vec();
    sk.sort_unstable();
    for mask in 1u32..(1u32 << n) {
        let subset: Vec<usize> = (0..n).filter(|b| mask >> b & 1 == 1).collect();
        for pres in 0..presentations {
            let request: Vec<usize> = match pres {
                0 => subset.clone(),
                1 => {
                    let mut r = subset.clone();
                    r.reverse();
                    r
                }
                _ => {
                    // repeats + rotated
                    let mut r = subset.clone();
                    r.rotate_left(subset.len() / 2);
                    r.push(subset[0]);
                    r.insert(0, *subset.last().unwrap());
                    r
                }
            };
            let mut stop = false;
            let accc = std::cell::RefCell::new(&mut *acc);
            let (cnt, ok, capped) = enumerate_pivots(
                cap,
                || {
                    if stop {
                        return;
                    }
                    let mut a = accc.borrow_mut();
                    if !run_bulk(&mut a, &data, &sk, &request, None, unwind_only) {
                        stop = a.violations_total > 200;
                    }
                },
                |_| {},
            );
            drop(accc);
            if !ok {
                acc.harness_error("scripted pivot prefix not consumed (bulk)".into());
            }
            if capped {
                acc.count("pivot_enumeration_capped");
            }
            if n >= 2 {
                acc.exact_nontrivial += cnt;
            }
            acc.count_n("pivot_sequences", cnt);
        }
    }
    acc.sample(|| {
        J::obj(vec![
            ("op", J::s("get_many_from_sorted_mut, every non-empty index subset x presentations, all pivot sequences")),
            ("pattern", J::A(pat.iter().map(|&x| J::I(x as i128)).collect())),
        ])
    });
}

fn random_policy(rng: &mut Rng) -> Pivots {
    match rng.below(7) {
        0 => Pivots::Natural,
        1 => Pivots::First,
        2 => Pivots::Last,
        3 => Pivots::Mid,
        4 => Pivots::Alternate,
        _ => Pivots::Seeded(rng.next()),
    }
}

fn random_lane(rng: &mut Rng, n: usize) -> Vec<u8> {
    let alpha = *rng.pick(&[1usize, 2, 3, 5, 16, 200]);
    let mut v: Vec<u8> = (0..n).map(|_| rng.below(alpha) as u8).collect();
    match rng.below(9) {
        0 => v.sort_unstable(),
        1 => {
            v.sort_unstable();
            v.reverse()
        }
        6 | 7 | 8 if n >= 2 => {
            // sorted (or reverse sorted) except for ONE element out of place: the head, the tail, or a random
            // element moved somewhere else; or a rotation of a sorted lane
            v.sort_unstable();
            if rng.chance(0.3) {
                v.reverse();
            }
            match rng.below(4) {
                0 => {
                    // a larger element placed first
                    let j = 1 + rng.below(n - 1);
                    let x = v.remove(j);
                    v.insert(0, x);
                }
                1 => {
                    let j = rng.below(n - 1);
                    let x = v.remove(j);
                    v.push(x);
                }
                2 => {
                    let (a, b) = (rng.below(n), rng.below(n));
                    let x = v.remove(a);
                    v.insert(b.min(v.len()), x);
                }
                _ => {
                    let r = rng.below(n);
                    v.rotate_left(r);
                }
            }
        }
        2 => {
            // organ pipe
            v.sort_unstable();
            let mut o = vec![0u8; n];
            let (mut l, mut r) = (0usize, n);
            for (j, x) in v.iter().enumerate() {
                if j % 2 == 0 {
                    o[l] = *x;
                    l += 1;
                } else {
                    r -= 1;
                    o[r] = *x;
                }
            }
            v = o;
        }
        _ => {}
    }
    v
}

fn random_layout1(rng: &mut Rng) -> Option<Layout> {
    if rng.chance(0.3) {
        None
    } else {
        Some(lay1(
            *rng.pick(&[1isize, 2, 3, -1, -2, -3]),
            rng.below(3),
            rng.below(3),
        ))
    }
}

// ---------------------------------------------------------------------------
// partition
// ---------------------------------------------------------------------------
fn run_partition(acc: &mut Acc, data: &[Tracked], p: usize, lay: Option<&Layout>, unwind_only: bool) -> bool {
    let n = data.len();
    acc.eval();
    let (res, after, guards_ok) = match lay {
        None => {
            let mut a = Array1::from(data.to_vec());
            set_budget(budget_for(n));
            let r = catch(|| a.partition_mut(p));
            set_budget(u64::MAX);
            (r, a.to_vec(), true)
        }
        Some(l) => {
            let mut e = Embedded::new(&[n], data, l.clone());
            let before = e.parent_bits();
            let mask = e.in_view_mask();
            let r = {
                let mut v = e.view_mut().into_dimensionality::<Ix1>().unwrap();
                set_budget(budget_for(n));
                let r = catch(|| v.partition_mut(p));
                set_budget(u64::MAX);
                r
            };
            let afterb = e.parent_bits();
            let g = (0..before.len()).all(|q| mask[q] || before[q] == afterb[q]);
            (r, e.logical_now(), g)
        }
    };
    let fail = |acc: &mut Acc, monitor: &str, what: String| {
        acc.violation(
            monitor,
            None,
            J::obj(vec![
                ("op", J::s("partition_mut")),
                ("what", J::s(what)),
                ("input_keys", J::A(data.iter().map(|t| J::I(t.key as i128)).collect())),
                ("pivot_index", J::u(p)),
                (
                    "layout",
                    match lay {
                        None => J::s("contiguous"),
                        Some(l) => l.to_json(),
                    },
                ),
                ("after", show_vec(&after)),
                (
                    "result",
                    match &res {
                        Ok(k) => J::u(*k),
                        Err(m) => J::s(format!("panic: {}", m)),
                    },
                ),
            ]),
        );
        false
    };
    match &res {
        Err(m) => return fail(acc, "no_panic_in_range", format!("in-range call panicked: {}", m)),
        Ok(k) => {
            if unwind_only {
                return true;
            }
            let k = *k;
            let pv = data[p].key;
            let rank = data.iter().filter(|x| x.key < pv).count();
            if k != rank {
                return fail(acc, "rank", format!("returned {} but {} elements are smaller than the pivot value", k, rank));
            }
            if k >= n || after[k].key != pv {
                return fail(acc, "pivot_position", "position k does not hold the pivot value".into());
            }
            if after[..k].iter().any(|x| x.key >= pv) {
                return fail(acc, "left_side", "an element before k is not strictly smaller".into());
            }
            if after[k + 1..].iter().any(|x| x.key < pv) {
                return fail(acc, "right_side", "an element after k is smaller than the pivot value".into());
            }
            if ids_sorted(&after) != ids_sorted(data) {
                return fail(acc, "multiset", "the array no longer holds the same elements".into());
            }
            if !guards_ok {
                return fail(acc, "guards", "a cell outside the view was modified".into());
            }
        }
    }
    true
}

/// a 48-byte element ordered by `key` only
#[derive(Clone, Copy, Debug)]
#[allow(dead_code)]
struct Wide {
    key: i64,
    pad: [u64; 5],
}
impl PartialEq for Wide {
    fn eq(&self, o: &Self) -> bool {
        self.key == o.key
    }
}
impl Eq for Wide {}
impl PartialOrd for Wide {
    fn partial_cmp(&self, o: &Self) -> Option<std::cmp::Ordering> {
        Some(self.key.cmp(&o.key))
    }
}
impl Ord for Wide {
    fn cmp(&self, o: &Self) -> std::cmp::Ordering {
        self.key.cmp(&o.key)
    }
}

/// post-condition of partition_mut on plain values (after-state given as a Vec)
fn judge_partition_plain<T: Ord + Copy + std::fmt::Debug>(acc: &mut Acc, tname: &str, data: &[T], p: usize, res: Result<(usize, Vec<T>), String>) {
    let fail = |acc: &mut Acc, monitor: &str, what: String| {
        acc.violation(monitor, None, J::obj(vec![("op", J::s("partition_mut")), ("elem", J::s(tname)), ("input", J::s(format!("{:?}", data))), ("pivot_index", J::u(p)), ("what", J::s(what))]));
    };
    match res {
        Err(m) => fail(acc, "no_panic_in_range", format!("in-range call panicked: {}", m)),
        Ok((k, after)) => {
            let pv = data[p];
            let rank = data.iter().filter(|x| **x < pv).count();
            let mut a = after.clone();
            let mut b = data.to_vec();
            a.sort();
            b.sort();
            if k != rank {
                fail(acc, "rank", format!("returned {} but {} elements are smaller than the pivot value; after = {:?}", k, rank, after));
            } else if k >= after.len() || after[k] != pv {
                fail(acc, "pivot_position", format!("position k = {} does not hold the pivot value; after = {:?}", k, after));
            } else if after[..k].iter().any(|x| *x >= pv) || after[k + 1..].iter().any(|x| *x < pv) {
                fail(acc, "left_side", format!("sides not separated; after = {:?}", after));
            } else if a != b {
                fail(acc, "multiset", format!("multiset changed; after = {:?}", after));
            }
        }
    }
}

fn part_generic<T: Ord + Copy + std::fmt::Debug + Elem>(acc: &mut Acc, data: &[T], p: usize, lay: Option<&Layout>, tname: &str) {
    acc.eval();
    let n = data.len();
    let res = match lay {
        None => {
            let mut a = Array1::from(data.to_vec());
            catch(|| a.partition_mut(p)).map(|k| (k, a.to_vec()))
        }
        Some(l) => {
            let mut e = Embedded::new(&[n], data, l.clone());
            let r = {
                let mut v = e.view_mut().into_dimensionality::<Ix1>().unwrap();
                catch(|| v.partition_mut(p))
            };
            r.map(|k| (k, e.logical_now()))
        }
    };
    judge_partition_plain(acc, tname, data, p, res);
}

// ---------------------------------------------------------------------------
// out-of-range observation
// ---------------------------------------------------------------------------
fn must_panic<R>(acc: &mut Acc, what: &str, detail: impl Fn() -> J, f: impl FnOnce() -> R) -> bool {
    acc.eval();
    set_budget(1_000_000);
    let r = catch(f);
    set_budget(u64::MAX);
    match r {
        Err(m) if m == BUDGET_MSG => {
            acc.violation(
                "must_unwind",
                None,
                J::obj(vec![("op", J::s(what)), ("what", J::s("out-of-range call did not finish within the step budget")), ("case", detail())]),
            );
            false
        }
        Err(_) => true,
        Ok(_) => {
            let log = take_pivot_log();
            acc.violation(
                "must_unwind",
                None,
                J::obj(vec![
                    ("op", J::s(what)),
                    ("what", J::s("out-of-range position was accepted (the call returned instead of panicking)")),
                    ("case", detail()),
                    (
                        "pivots",
                        J::A(log
                            .iter()
                            .map(|&(n, c)| J::A(vec![J::u(n), J::u(c)]))
                            .collect()),
                    ),
                ]),
            );
            false
        }
    }
}

fn oob_positions(n: usize) -> Vec<usize> {
    let mut v = vec![n, n + 1, 2 * n + 3, usize::MAX, usize::MAX - 1, usize::MAX / 2 + 1];
    v.dedup();
    v
}

fn main() {
    let args = Args::parse();
    let prop = args.prop.clone();
    let thorough = args.thorough();
    let r = Runner::new(args);

    // ----------------------------------------------------------------- C02
    if prop == "C02" {
        let hi = if thorough { 8 } else { 7 };
        let pats = patterns(1, hi);
        r.section("single_exh", pats.len() as u64, |k, _rng, acc| {
            single_exhaustive(acc, &pats[k as usize], None, false, u64::MAX);
        });
        let pats_s = patterns(1, if thorough { 6 } else { 5 });
        let strides: [(isize, usize, usize); 4] = [(2, 1, 1), (3, 0, 2), (-1, 1, 0), (-2, 2, 1)];
        r.section("single_exh_strided", (pats_s.len() * strides.len()) as u64, |k, _rng, acc| {
            let (s, b, a) = strides[k as usize % strides.len()];
            let l = lay1(s, b, a);
            single_exhaustive(acc, &pats_s[k as usize / strides.len()], Some(&l), false, u64::MAX);
        });
        let pats_b = patterns(1, if thorough { 6 } else { 5 });
        r.section("bulk_exh", pats_b.len() as u64, |k, _rng, acc| {
            bulk_exhaustive(acc, &pats_b[k as usize], false, u64::MAX, 3);
        });
        r.section("random", r.args.n(40_000, 1_500_000), |_k, rng, acc| {
            let n = if rng.chance(0.1) { 1 + rng.below(300) } else { 1 + rng.below(40) };
            let pat = random_lane(rng, n);
            let data = tracked(&pat);
            let mut sk = pat.clone();
            sk.sort_unstable();
            let lay = random_layout1(rng);
            let pol = random_policy(rng);
            let polname = format!("{:?}", pol).chars().take(6).collect::<String>();
            if rng.chance(0.5) {
                let i = rng.below(n);
                set_pivots(pol);
                run_single(acc, &data, &sk, i, lay.as_ref(), false);
                let log = take_pivot_log();
                acc.seen("pivot_sequences_distinct", h64(&log));
                acc.nontrivial(h64(&(&pat, i, &lay, &log)));
            } else {
                let m = 1 + rng.below(8.min(n) + 2);
                let request: Vec<usize> = (0..m).map(|_| rng.below(n)).collect();
                set_pivots(pol);
                run_bulk(acc, &data, &sk, &request, lay.as_ref(), false);
                let log = take_pivot_log();
                acc.seen("pivot_sequences_distinct", h64(&log));
                acc.nontrivial(h64(&(&pat, &request, &lay, &log)));
            }
            acc.count(&format!("policy_{}", polname));
            acc.count(&format!(
                "layout_{}",
                lay.as_ref().map(|l| l.class()).unwrap_or("plain".into())
            ));
            acc.sample(|| J::obj(vec![("n", J::u(n)), ("keys", J::A(pat.iter().take(12).map(|&x| J::I(x as i128)).collect()))]));
        });
        // an empty request is in range for every array, the empty one included: an empty map, no panic
        r.section("empty_requests", 12, |k, _rng, acc| {
            let n = k as usize;
            let data: Vec<Tracked> = (0..n).map(|i| Tracked { key: (i % 3) as u8, id: i as u16 }).collect();
            for lay in [None, Some(lay1(2, 1, 1)), Some(lay1(-1, 0, 1))] {
                acc.eval();
                let none: Array1<usize> = Array1::from(Vec::<usize>::new());
                let res = match &lay {
                    None => {
                        let mut a = Array1::from(data.clone());
                        catch(|| a.get_many_from_sorted_mut(&none).len())
                    }
                    Some(l) => {
                        let mut e = Embedded::new(&[n], &data, l.clone());
                        let mut v = e.view_mut().into_dimensionality::<Ix1>().unwrap();
                        catch(|| v.get_many_from_sorted_mut(&none).len())
                    }
                };
                if res != Ok(0) {
                    acc.violation("bulk_keys", None, J::obj(vec![("op", J::s("get_many_from_sorted_mut(empty request)")), ("n", J::u(n)), ("what", J::s(format!("expected an empty map, got {:?}", res)))]));
                }
                acc.exact_nontrivial += 1;
            }
        });
        // an element type that owns a resource (neither Copy nor trivially droppable): same value laws, plus the
        // lifecycle monitor - no element dropped twice, none used after its drop
        r.section("owned_elems", r.args.n(30_000, 600_000), |k, rng, acc| {
            let nmax = if rng.chance(0.1) { 60 } else { 10 };
            let n = 1 + rng.below(nmax);
            let alpha = *rng.pick(&[1i64, 2, 3, 6, 1000]);
            let keys: Vec<i64> = (0..n).map(|_| rng.range(0, alpha)).collect();
            let mut sk = keys.clone();
            sk.sort_unstable();
            let (s_abs, rev) = match rng.below(4) {
                0 => (2usize, false),
                1 => (1, true),
                2 => (3, true),
                _ => (1, false),
            };
            let pol = random_policy(rng);
            let single = k % 2 == 0;
            let i = rng.below(n);
            let m = rng.below(8.min(n) + 2);
            let request: Vec<usize> = (0..m).map(|_| rng.below(n)).collect();
            life_reset();
            acc.eval();
            let verdict: Result<(), (String, String)> = {
                let mut parent = Array1::from((0..((n - 1) * s_abs + 3)).map(|_| Res::new(-77)).collect::<Vec<_>>());
                for (j, &kk) in keys.iter().enumerate() {
                    parent[1 + j * s_abs] = Res::new(kk);
                }
                let mut v = parent.slice_mut(ndarray::s![1..(n - 1) * s_abs + 2;s_abs as isize]);
                if rev {
                    v.invert_axis(Axis(0));
                }
                let logical: Vec<i64> = v.iter().map(|w| w.key).collect();
                set_pivots(pol.clone());
                let out: Result<Vec<(usize, i64)>, String> = if single {
                    catch(|| v.get_from_sorted_mut(i)).map(|x| vec![(i, x.key)])
                } else {
                    catch(|| v.get_many_from_sorted_mut(&Array1::from(request.clone()))).map(|mp| mp.iter().map(|(a, b)| (*a, b.key)).collect())
                };
                let after: Vec<i64> = v.iter().map(|w| w.key).collect();
                let mut a2 = after.clone();
                a2.sort_unstable();
                let mut l2 = logical.clone();
                l2.sort_unstable();
                match out {
                    Err(msg) => Err(("no_panic_in_range".to_string(), format!("in-range call panicked: {}", msg))),
                    Ok(pairs) => {
                        let mut want: Vec<usize> = if single { vec![i] } else { request.clone() };
                        want.sort_unstable();
                        want.dedup();
                        let mut got: Vec<usize> = pairs.iter().map(|p| p.0).collect();
                        got.sort_unstable();
                        if got != want {
                            Err(("bulk_keys".to_string(), format!("keys of the result {:?}, requested {:?}", got, want)))
                        } else if let Some((pos, val)) = pairs.iter().find(|(pos, val)| *val != sk[*pos]) {
                            Err(("reference_sort".to_string(), format!("position {} answered {} but the sorted array holds {}", pos, val, sk[*pos])))
                        } else if a2 != l2 {
                            Err(("multiset".to_string(), format!("array after the call {:?} is not a permutation of the input", after)))
                        } else if pairs.iter().any(|(pos, val)| after[*pos] != *val || after[..*pos].iter().any(|y| y > val) || after[*pos..].iter().any(|y| y < val)) {
                            Err(("postcondition".to_string(), format!("array after the call {:?} is not ordered around the requested positions", after)))
                        } else if parent.iter().enumerate().any(|(c, w)| (c < 1 || (c - 1) % s_abs != 0 || (c - 1) / s_abs >= n) && w.key != -77) {
                            Err(("multiset".to_string(), "a cell outside the view changed".to_string()))
                        } else {
                            Ok(())
                        }
                    }
                }
                // parent, view and results are dropped here
            };
            let log = take_pivot_log();
            let (alive, events) = life_stats();
            acc.max("lifecycle_events_per_case", events as f64);
            let info = |what: String| J::obj(vec![("op", J::s(if single { "get_from_sorted_mut<Res>" } else { "get_many_from_sorted_mut<Res>" })), ("keys", J::A(keys.iter().map(|&x| J::I(x as i128)).collect())), ("i", J::u(i)), ("request", J::us(&request)), ("step", J::I(if rev { -(s_abs as i128) } else { s_abs as i128 })), ("policy", J::s(format!("{:?}", pol))), ("what", J::s(what))]);
            if let Some(f) = life_fault() {
                acc.violation("element_lifecycle", None, info(f));
            } else if let Err((mon, what)) = verdict {
                acc.violation(&mon, None, info(what));
            }
            if alive != 0 {
                acc.count("cases_with_values_still_alive_after_drop_of_everything");
            }
            acc.seen("pivot_sequences_distinct", h64(&log));
            acc.nontrivial(h64(&(&keys, single, i, &request, s_abs, rev, &log)));
            acc.sample(|| info("sample".into()));
        });
        // plain integer element types through the same entry points
        r.section("random_ints", r.args.n(10_000, 300_000), |_k, rng, acc| {
            let n = 1 + rng.below(60);
            let v: Vec<i64> = (0..n)
                .map(|_| match rng.below(4) {
                    0 => *rng.pick(&[i64::MIN, i64::MIN + 1, -1, 0, 1, i64::MAX - 1, i64::MAX]),
                    1 => rng.range(-3, 3),
                    _ => rng.next() as i64,
                })
                .collect();
            let mut s = v.clone();
            s.sort_unstable();
            let i = rng.below(n);
            let mut a = Array1::from(v.clone());
            set_pivots(random_policy(rng));
            acc.eval();
            let res = catch(|| a.get_from_sorted_mut(i));
            let log = take_pivot_log();
            let mut after = a.to_vec();
            let ok = match &res {
                Ok(x) => *x == s[i] && after[..i].iter().all(|y| y <= x) && after[i..].iter().all(|y| y >= x),
                Err(_) => false,
            };
            after.sort_unstable();
            if !ok || after != s {
                acc.violation(
                    "reference_sort",
                    None,
                    J::obj(vec![
                        ("op", J::s("get_from_sorted_mut<i64>")),
                        ("input", J::A(v.iter().map(|&x| J::I(x as i128)).collect())),
                        ("i", J::u(i)),
                        ("result", J::s(format!("{:?}", res))),
                    ]),
                );
            }
            acc.nontrivial(h64(&(&v, i, &log)));
        });
    }

    // ----------------------------------------------------------------- C15
    if prop == "C15" {
        let hi = if thorough { 8 } else { 7 };
        let pats = patterns(1, hi);
        let lays: Vec<Option<Layout>> = vec![
            None,
            Some(lay1(2, 1, 1)),
            Some(lay1(3, 0, 2)),
            Some(lay1(-1, 1, 1)),
            Some(lay1(-2, 2, 0)),
        ];
        r.section("part_exh", pats.len() as u64, |k, _rng, acc| {
            let pat = &pats[k as usize];
            let data = tracked(pat);
            for p in 0..pat.len() {
                for l in &lays {
                    // strided variants only up to length 6 (cost), plain for all
                    if l.is_some() && pat.len() > 6 {
                        continue;
                    }
                    run_partition(acc, &data, p, l.as_ref(), false);
                    acc.exact_nontrivial += 1;
                    acc.count(&format!(
                        "layout_{}",
                        l.as_ref().map(|l| l.class()).unwrap_or("plain".into())
                    ));
                }
            }
            acc.count(&format!("len_{}", pat.len()));
            acc.sample(|| {
                J::obj(vec![
                    ("op", J::s("partition_mut, every pivot position x 5 strides")),
                    ("pattern", J::A(pat.iter().map(|&x| J::I(x as i128)).collect())),
                ])
            });
        });
        // other element types: plain integers, N64, the NotNone wrapper handed out for Option<T> lanes, zero-sized
        r.section("part_types", r.args.n(12_000, 400_000), |k, rng, acc| {
            let n = 1 + rng.below(12);
            let alpha = *rng.pick(&[1i64, 2, 3, 6, 50]);
            let vals: Vec<i64> = (0..n).map(|_| rng.range(0, alpha)).collect();
            let p = rng.below(n);
            let lay = random_layout1(rng);
            match k % 9 {
                8 => {
                    // an element type that owns a resource (Drop, not Copy), with the lifecycle monitor
                    life_reset();
                    acc.eval();
                    let res = {
                        let mut a = Array1::from(vals.iter().map(|&v| Res::new(v)).collect::<Vec<_>>());
                        catch(|| a.partition_mut(p)).map(|k| (k, a.iter().map(|w| w.key).collect::<Vec<i64>>()))
                    };
                    if let Some(f) = life_fault() {
                        acc.violation("element_lifecycle", None, J::obj(vec![("op", J::s("partition_mut<Res>")), ("input", J::s(format!("{:?}", vals))), ("pivot_index", J::u(p)), ("what", J::s(f))]));
                    } else {
                        judge_partition_plain(acc, "Res (owns a resource: Drop, not Copy)", &vals, p, res);
                    }
                }
                5 => {
                    // an element type wider than a cache line fragment (48 bytes), ordered by its key only
                    let data: Vec<Wide> = vals.iter().enumerate().map(|(i, &v)| Wide { key: v, pad: [i as u64; 5] }).collect();
                    // plain owned array, or a strided / reversed view of a larger buffer built by hand
                    // (Wide is not an `Elem`, so the zoo cannot embed it)
                    let s_abs = lay.as_ref().map(|l| l.step[0].unsigned_abs()).unwrap_or(1);
                    let rev = lay.as_ref().map(|l| l.step[0] < 0).unwrap_or(false);
                    let mut buf: Vec<Wide> = (0..((n - 1) * s_abs + 3)).map(|i| Wide { key: -77, pad: [i as u64; 5] }).collect();
                    for (i, w) in data.iter().enumerate() {
                        buf[1 + i * s_abs] = *w;
                    }
                    let mut parent = Array1::from(buf);
                    let mut v = parent.slice_mut(ndarray::s![1..(n - 1) * s_abs + 2;s_abs as isize]);
                    if rev {
                        v.invert_axis(Axis(0));
                    }
                    let logical: Vec<i64> = v.iter().map(|w| w.key).collect();
                    acc.eval();
                    let res = catch(|| v.partition_mut(p)).map(|k| (k, v.iter().map(|w| w.key).collect::<Vec<i64>>()));
                    judge_partition_plain(acc, "Wide (48 bytes)", &logical, p, res);
                    if parent.iter().enumerate().any(|(i, w)| (i < 1 || (i - 1) % s_abs != 0 || (i - 1) / s_abs >= n) && w.key != -77) {
                        acc.violation("multiset", None, J::obj(vec![("op", J::s("partition_mut on a strided view of 48-byte elements")), ("what", J::s("a cell outside the view changed"))]));
                    }
                }
                6 => {
                    // shared storage: an ArcArray with a second live handle (copy-on-write on the first mutation)
                    let data: Vec<i32> = vals.iter().map(|&v| v as i32).collect();
                    let mut a = Array1::from(data.clone()).into_shared();
                    let keep = a.clone();
                    acc.eval();
                    let res = catch(|| a.partition_mut(p)).map(|k| (k, a.to_vec()));
                    judge_partition_plain(acc, "i32 in a shared ArcArray", &data, p, res);
                    if keep.to_vec() != data {
                        acc.violation("multiset", None, J::obj(vec![("op", J::s("partition_mut on a shared ArcArray")), ("what", J::s("the other handle changed"))]));
                    }
                }
                7 => {
                    // copy-on-write array borrowing a view
                    let data: Vec<i32> = vals.iter().map(|&v| v as i32).collect();
                    let owner = Array1::from(data.clone());
                    let mut c = ndarray::CowArray::from(owner.view());
                    acc.eval();
                    let res = catch(|| c.partition_mut(p)).map(|k| (k, c.to_vec()));
                    judge_partition_plain(acc, "i32 in a CowArray borrowing a view", &data, p, res);
                    if owner.to_vec() != data {
                        acc.violation("multiset", None, J::obj(vec![("op", J::s("partition_mut on a borrowed CowArray")), ("what", J::s("the lender changed"))]));
                    }
                }
                0 => part_generic::<i32>(acc, &vals.iter().map(|&v| v as i32 - 2).collect::<Vec<_>>(), p, lay.as_ref(), "i32"),
                1 => part_generic::<N64>(acc, &vals.iter().map(|&v| n64(v as f64 * 0.5)).collect::<Vec<_>>(), p, lay.as_ref(), "N64"),
                2 => part_generic::<u8>(acc, &vals.iter().map(|&v| v as u8).collect::<Vec<_>>(), p, lay.as_ref(), "u8"),
                3 => {
                    // NotNone<i32>: obtained the way users get it, from remove_nan_mut on an Option<i32> lane
                    let mut opt: Vec<Option<i32>> = vals.iter().map(|&v| Some(v as i32)).collect();
                    let mut e = Embedded::new(&[n], &opt, lay.clone().unwrap_or(Layout::canonical(1)));
                    let before = vals.clone();
                    acc.eval();
                    let res = {
                        let v = e.view_mut().into_dimensionality::<Ix1>().unwrap();
                        let mut nn = <Option<i32> as ndarray_stats::MaybeNan>::remove_nan_mut(v);
                        let r = catch(|| nn.partition_mut(p));
                        r.map(|k| (k, nn.iter().map(|x| **x).collect::<Vec<i32>>()))
                    };
                    opt.clear();
                    judge_partition_plain(acc, "NotNone<i32>", &before.iter().map(|&v| v as i32).collect::<Vec<_>>(), p, res);
                }
                _ => {
                    // zero-sized elements: all equal, so the rank of any pivot is 0
                    let mut a: Array1<()> = Array1::from(vec![(); n]);
                    acc.eval();
                    match catch(|| a.partition_mut(p)) {
                        Ok(0) => {}
                        other => acc.violation("rank", None, J::obj(vec![("op", J::s("partition_mut")), ("elem", J::s("() (zero-sized)")), ("n", J::u(n)), ("pivot_index", J::u(p)), ("what", J::s(format!("returned {:?}, but no element is smaller than the pivot value", other)))])),
                    }
                }
            }
            acc.nontrivial(h64(&(k % 9, &vals, p, &lay)));
            acc.count(&format!("elem_kind_{}", k % 9));
        });
        r.section("part_random", r.args.n(30_000, 1_000_000), |_k, rng, acc| {
            let n = match rng.below(50) {
                0 | 1 => 513 + rng.below(1600), // beyond two blocks of 256
                2..=6 => 1 + rng.below(500),
                _ => 1 + rng.below(50),
            };
            let pat = random_lane(rng, n);
            let data = tracked(&pat);
            let p = rng.below(n);
            let lay = random_layout1(rng);
            run_partition(acc, &data, p, lay.as_ref(), false);
            acc.nontrivial(h64(&(&pat, p, &lay)));
            acc.count(&format!(
                "layout_{}",
                lay.as_ref().map(|l| l.class()).unwrap_or("plain".into())
            ));
        });
    }

    // ----------------------------------------------------------------- C16
    if prop == "C16" {
        let hi = if thorough { 7 } else { 6 };
        // (a) out-of-range single selection under ALL pivot sequences
        let mut pats = vec![vec![]];
        pats.extend(patterns(1, hi));
        r.section("oob_single", pats.len() as u64, |k, _rng, acc| {
            let pat = &pats[k as usize];
            let n = pat.len();
            let data = tracked(pat);
            for i in oob_positions(n) {
                let accc = std::cell::RefCell::new(&mut *acc);
                let (cnt, _ok, _c) = enumerate_pivots(
                    200_000,
                    || {
                        let mut a = accc.borrow_mut();
                        let mut arr = Array1::from(data.clone());
                        must_panic(
                            &mut a,
                            "get_from_sorted_mut",
                            || J::obj(vec![("keys", J::A(pat.iter().map(|&x| J::I(x as i128)).collect())), ("i", J::s(format!("{}", i))), ("n", J::u(n))]),
                            || arr.get_from_sorted_mut(i),
                        );
                    },
                    |_| {},
                );
                drop(accc);
                acc.exact_nontrivial += cnt;
                acc.count_n("pivot_sequences", cnt);
            }
            acc.count(&format!("len_{}", n));
            acc.sample(|| J::obj(vec![("op", J::s("get_from_sorted_mut(out of range), all pivot sequences")), ("pattern", J::A(pat.iter().map(|&x| J::I(x as i128)).collect()))]));
        });
        // (b) bulk with at least one out-of-range member
        let mut pats_b = vec![vec![]];
        pats_b.extend(patterns(1, if thorough { 6 } else { 5 }));
        r.section("oob_bulk", pats_b.len() as u64, |k, rng, acc| {
            let pat = &pats_b[k as usize];
            let n = pat.len();
            let data = tracked(pat);
            let mut requests: Vec<Vec<usize>> = vec![];
            for o in oob_positions(n) {
                requests.push(vec![o]);
                requests.push(vec![o, o]);
                if n > 0 {
                    requests.push(vec![0, o]);
                    requests.push(vec![o, n - 1]);
                    requests.push((0..n).chain(std::iter::once(o)).collect());
                    let mut rr: Vec<usize> = (0..n).collect();
                    rr.insert(rng.below(n + 1), o);
                    rr.reverse();
                    requests.push(rr);
                    requests.push(vec![n - 1, o, n - 1, 0]);
                }
            }
            for (req, rmode) in requests.iter().flat_map(|r| (0..3usize).map(move |m| (r.clone(), m))) {
                let accc = std::cell::RefCell::new(&mut *acc);
                let (cnt, _ok, _c) = enumerate_pivots(
                    5_000,
                    || {
                        let mut a = accc.borrow_mut();
                        let mut arr = Array1::from(data.clone());
                        must_panic(
                            &mut a,
                            "get_many_from_sorted_mut",
                            || J::obj(vec![("keys", J::A(pat.iter().map(|&x| J::I(x as i128)).collect())), ("request", J::A(req.iter().map(|x| J::s(format!("{}", x))).collect())), ("request_array", J::s(["owned contiguous", "reversed view", "stepped view"][rmode])), ("n", J::u(n))]),
                            || with_request(&req, rmode, |reqa| arr.get_many_from_sorted_mut(&reqa)),
                        );
                    },
                    |_| {},
                );
                drop(accc);
                acc.exact_nontrivial += cnt;
                acc.count_n("pivot_sequences", cnt);
            }
        });
        // (b2) long request lists (64..160 entries, far more than the array has positions) with out-of-range members
        r.section("oob_bulk_long_requests", r.args.n(3_000, 100_000), |k, rng, acc| {
            let n = rng.below(14);
            let data: Vec<Tracked> = (0..n).map(|i| Tracked { key: rng.below(4) as u8, id: i as u16 }).collect();
            let len = 64 + rng.below(97);
            let noob = *rng.pick(&[1usize, 1, 2, 5, len]);
            let mut req: Vec<usize> = (0..len).map(|_| if n == 0 { 0 } else { rng.below(n) }).collect();
            let oob = oob_positions(n);
            for _ in 0..noob.min(len) {
                let at = rng.below(len);
                req[at] = *rng.pick(&oob);
            }
            if n == 0 {
                // every position is out of range for an empty array
                for x in req.iter_mut() {
                    *x = *rng.pick(&oob);
                }
            }
            let rmode = k as usize % 3;
            set_pivots(random_policy(rng));
            let mut arr = Array1::from(data.clone());
            must_panic(
                acc,
                "get_many_from_sorted_mut (long request list)",
                || J::obj(vec![("n", J::u(n)), ("request_len", J::u(len)), ("out_of_range_members", J::A(req.iter().filter(|&&x| x >= n).take(6).map(|x| J::s(format!("{}", x))).collect())), ("request_array", J::s(["owned contiguous", "reversed view", "stepped view"][rmode]))]),
                || with_request(&req, rmode, |reqa| arr.get_many_from_sorted_mut(&reqa)),
            );
            acc.nontrivial(h64(&(n, &req, rmode)));
            // the in-range twin of the same length must be answered
            if n > 0 {
                let good: Vec<usize> = req.iter().map(|&x| if x >= n { x % n } else { x }).collect();
                let mut arr2 = Array1::from(data.clone());
                acc.eval();
                if catch(|| with_request(&good, rmode, |reqa| arr2.get_many_from_sorted_mut(&reqa).len())).is_err() {
                    acc.violation("no_panic_in_range", None, J::obj(vec![("op", J::s("get_many_from_sorted_mut (long request list)")), ("n", J::u(n)), ("request_len", J::u(len))]));
                }
            }
        });
        // (c) partition with out-of-range pivot, incl. strided views
        r.section("oob_partition", pats.len() as u64, |k, _rng, acc| {
            let pat = &pats[k as usize];
            let n = pat.len();
            let data = tracked(pat);
            for p in oob_positions(n) {
                for l in [None, Some(lay1(2, 1, 2)), Some(lay1(-1, 1, 1))] {
                    match l {
                        None => {
                            let mut arr = Array1::from(data.clone());
                            must_panic(acc, "partition_mut", || J::obj(vec![("keys", J::A(pat.iter().map(|&x| J::I(x as i128)).collect())), ("pivot_index", J::s(format!("{}", p)))]), || arr.partition_mut(p));
                        }
                        Some(l) => {
                            let mut e = Embedded::new(&[n], &data, l.clone());
                            let mut v = e.view_mut().into_dimensionality::<Ix1>().unwrap();
                            must_panic(acc, "partition_mut", || J::obj(vec![("keys", J::A(pat.iter().map(|&x| J::I(x as i128)).collect())), ("pivot_index", J::s(format!("{}", p))), ("layout", l.to_json())]), || v.partition_mut(p));
                        }
                    }
                    acc.exact_nontrivial += 1;
                }
            }
        });
        // (d) Bins / Grid / Edges by position
        r.section("oob_bins", 7 * 7 * 7, |k, _rng, acc| {
            let e0 = (k % 7) as usize;
            let e1 = ((k / 7) % 7) as usize;
            let e2 = ((k / 49) % 7) as usize;
            let mk = |ne: usize| Bins::new(Edges::from((0..ne as i32).map(|x| x * 10).collect::<Vec<i32>>()));
            // Edges index
            let edges = Edges::from((0..e0 as i32).collect::<Vec<i32>>());
            let far: Vec<usize> = (0..=9usize).map(|k| usize::MAX - k).chain([isize::MAX as usize - 1, isize::MAX as usize, isize::MAX as usize + 1, isize::MAX as usize + 2, (1usize << 63) + e0, 1usize << 32, (1usize << 32) + 1]).collect();
            for i in [e0, e0 + 1].into_iter().chain(far.iter().cloned()) {
                must_panic(acc, "Edges[i]", || J::obj(vec![("n_edges", J::u(e0)), ("i", J::s(format!("{}", i)))]), || edges[i]);
                acc.exact_nontrivial += 1;
            }
            for i in 0..e0 {
                acc.eval();
                if catch(|| edges[i]).is_err() {
                    acc.violation("no_panic_in_range", None, J::obj(vec![("op", J::s("Edges[i]")), ("n_edges", J::u(e0)), ("i", J::u(i))]));
                }
            }
            let bins = mk(e0);
            let nb = e0.saturating_sub(1);
            for i in [nb, nb + 1].into_iter().chain(far.iter().cloned()) {
                must_panic(acc, "Bins::index", || J::obj(vec![("n_edges", J::u(e0)), ("i", J::s(format!("{}", i)))]), || bins.index(i));
                acc.exact_nontrivial += 1;
            }
            for i in 0..nb {
                acc.eval();
                if catch(|| bins.index(i)).is_err() {
                    acc.violation("no_panic_in_range", None, J::obj(vec![("op", J::s("Bins::index")), ("n_edges", J::u(e0)), ("i", J::u(i))]));
                }
            }
            // grids of 1..3 axes
            for nd in 1..=3usize {
                let ne = [e0, e1, e2];
                let grid = Grid::from((0..nd).map(|a| mk(ne[a])).collect::<Vec<_>>());
                let shape: Vec<usize> = (0..nd).map(|a| ne[a].saturating_sub(1)).collect();
                // one coordinate out of range, others in range (if possible) or 0
                for bad in 0..nd {
                    for off in [0usize, 1].into_iter().chain(far.iter().cloned()) {
                        let mut idx: Vec<usize> = shape.iter().map(|&s| s.saturating_sub(1)).collect();
                        idx[bad] = if off > 1 { off } else { shape[bad] + off };
                        must_panic(acc, "Grid::index", || J::obj(vec![("grid_shape", J::us(&shape)), ("index", J::A(idx.iter().map(|x| J::s(format!("{}", x))).collect()))]), || grid.index(&idx));
                        acc.exact_nontrivial += 1;
                    }
                }
                // wrong arity
                let idx_short: Vec<usize> = vec![0; nd - 1];
                let idx_long: Vec<usize> = vec![0; nd + 1];
                must_panic(acc, "Grid::index(arity)", || J::obj(vec![("grid_shape", J::us(&shape)), ("index_len", J::u(nd - 1))]), || grid.index(&idx_short));
                must_panic(acc, "Grid::index(arity)", || J::obj(vec![("grid_shape", J::us(&shape)), ("index_len", J::u(nd + 1))]), || grid.index(&idx_long));
                // in range: all index tuples
                let total: usize = shape.iter().product();
                for flat in 0..total {
                    let idx = unravel(flat, &shape);
                    acc.eval();
                    if catch(|| grid.index(&idx)).is_err() {
                        acc.violation("no_panic_in_range", None, J::obj(vec![("op", J::s("Grid::index")), ("grid_shape", J::us(&shape)), ("index", J::us(&idx))]));
                    }
                }
            }
        });
        // (d2) call histories on one thread: a request accepted for a longer array must still be rejected for a
        // shorter one (no decision may be carried over from a previous call), and vice versa
        r.section("oob_history", r.args.n(4_000, 100_000), |_k, rng, acc| {
            let n1 = 2 + rng.below(9);
            let n2 = rng.below(n1); // shorter, possibly empty
            let m = 1 + rng.below(4);
            let mut req: Vec<usize> = (0..m).map(|_| rng.below(n1)).collect();
            // make sure some member is out of range for the shorter array
            let j = rng.below(m);
            req[j] = n2 + rng.below(n1 - n2);
            let reqa = Array1::from(req.clone());
            let long: Vec<Tracked> = (0..n1).map(|i| Tracked { key: rng.below(4) as u8, id: i as u16 }).collect();
            let short: Vec<Tracked> = long[..n2].to_vec();
            set_pivots(random_policy(rng));
            for round in 0..2 {
                // accepted call on the long array ...
                let mut a = Array1::from(long.clone());
                acc.eval();
                if catch(|| a.get_many_from_sorted_mut(&reqa)).is_err() {
                    acc.violation("no_panic_in_range", None, J::obj(vec![("op", J::s("get_many_from_sorted_mut")), ("n", J::u(n1)), ("request", J::us(&req)), ("what", J::s("in-range request panicked"))]));
                    return;
                }
                // ... then the identical request on a shorter array must panic
                let mut b = Array1::from(short.clone());
                if !must_panic(acc, "get_many_from_sorted_mut (after the same request was accepted for a longer array)", || J::obj(vec![("long_n", J::u(n1)), ("short_n", J::u(n2)), ("request", J::us(&req)), ("round", J::u(round))]), || b.get_many_from_sorted_mut(&reqa)) {
                    return;
                }
                // single selection likewise
                let i = req[j];
                let mut a = Array1::from(long.clone());
                acc.eval();
                if catch(|| a.get_from_sorted_mut(i)).is_err() {
                    acc.violation("no_panic_in_range", None, J::obj(vec![("op", J::s("get_from_sorted_mut")), ("n", J::u(n1)), ("i", J::u(i))]));
                    return;
                }
                let mut b = Array1::from(short.clone());
                if !must_panic(acc, "get_from_sorted_mut (after the same index was accepted for a longer array)", || J::obj(vec![("long_n", J::u(n1)), ("short_n", J::u(n2)), ("i", J::u(i))]), || b.get_from_sorted_mut(i)) {
                    return;
                }
            }
            // empty request on an empty array is in range (nothing is out of range): must not panic
            let mut e: Array1<Tracked> = Array1::from(Vec::<Tracked>::new());
            let none: Array1<usize> = Array1::from(Vec::<usize>::new());
            acc.eval();
            match catch(|| e.get_many_from_sorted_mut(&none)) {
                Ok(m) if m.is_empty() => {}
                other => acc.violation("no_panic_in_range", None, J::obj(vec![("op", J::s("get_many_from_sorted_mut(empty request) on an empty array")), ("what", J::s(format!("{:?}", other.map(|m| m.len()))))])),
            }
            acc.nontrivial(h64(&(n1, n2, &req)));
        });
        // (e) in-range never panics: replay of the C02 / C15 exhaustive workloads, unwind bit only
        let pats_in = patterns(1, if thorough { 7 } else { 6 });
        r.section("inrange_single", pats_in.len() as u64, |k, _rng, acc| {
            single_exhaustive(acc, &pats_in[k as usize], None, true, u64::MAX);
        });
        let pats_inb = patterns(1, if thorough { 5 } else { 4 });
        r.section("inrange_bulk", pats_inb.len() as u64, |k, _rng, acc| {
            bulk_exhaustive(acc, &pats_inb[k as usize], true, u64::MAX, 3);
        });
        r.section("inrange_partition", pats_in.len() as u64, |k, _rng, acc| {
            let pat = &pats_in[k as usize];
            let data = tracked(pat);
            for p in 0..pat.len() {
                for l in [None, Some(lay1(-2, 1, 1))] {
                    run_partition(acc, &data, p, l.as_ref(), true);
                    acc.exact_nontrivial += 1;
                }
            }
        });
    }

    let exhaustive_note = match prop.as_str() {
        "C02" => "complete: every weak-order pattern up to the length bound x every in-range index (single) / every non-empty index subset x 3 presentations (bulk) x every pivot sequence; plus seeded random cases beyond the bound",
        "C15" => "complete: every weak-order pattern up to the length bound x every pivot position (x 5 strides up to length 6); plus seeded random cases",
        "C16" => "complete: every weak-order pattern up to the length bound x out-of-range positions x every pivot sequence; all Bins/Grid shapes with 0..6 edges per axis",
        _ => "",
    };
    r.finish(
        "sel",
        vec![
            ("exhaustive", J::B(true)),
            ("exhaustive_note", J::s(exhaustive_note)),
            ("length_bound", J::u(if thorough { 8 } else { 7 })),
        ],
    );
    let _ = keys;
}
