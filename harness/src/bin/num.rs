//! Driver `num`: numeric routines.  Float calls are appended to an event log
//! (operand and result BIT PATTERNS, logical order) that oracle/numoracle.py
//! judges with exact rational / 60-digit decimal arithmetic; integer calls are
//! judged in-process with exact i128 / BigInt reference models.
//!   C06 means / weighted sums     C07 variance / moments     C08 cov / pearson
//!   C09 deviations                C10 entropy family         C18 moments bulk, axis == lane
#![allow(clippy::all)]
use ndarray::prelude::*;
use ndarray::IxDyn;
use ndarray_stats::{CorrelationExt, DeviationExt, EntropyExt, SummaryStatisticsExt};
use num_bigint::BigInt;
use num_traits::{FromPrimitive, ToPrimitive};
use std::fmt::Write as _;
use vharness::*;

trait Fl: num_traits::Float + FromPrimitive + std::ops::AddAssign + num_traits::Signed + Elem + Send + Sync + std::fmt::Debug + 'static {
    const TY: &'static str;
    const IS32: bool;
    fn hex(&self) -> String;
    fn of(x: f64) -> Self;
}
impl Fl for f64 {
    const TY: &'static str = "f64";
    const IS32: bool = false;
    fn hex(&self) -> String {
        format!("{:016x}", self.to_bits())
    }
    fn of(x: f64) -> Self {
        x
    }
}
impl Fl for f32 {
    const TY: &'static str = "f32";
    const IS32: bool = true;
    fn hex(&self) -> String {
        format!("{:08x}", self.to_bits())
    }
    fn of(x: f64) -> Self {
        x as f32
    }
}

fn hexes<F: Fl>(xs: &[F]) -> String {
    let mut s = String::with_capacity(xs.len() * 19 + 2);
    s.push('[');
    for (i, x) in xs.iter().enumerate() {
        if i > 0 {
            s.push(',');
        }
        s.push('"');
        s.push_str(&x.hex());
        s.push('"');
    }
    s.push(']');
    s
}

fn res_json<F: Fl, E: std::fmt::Debug>(r: &Result<Result<F, E>, String>) -> String {
    match r {
        Ok(Ok(v)) => format!("\"{}\"", v.hex()),
        Ok(Err(e)) => format!("{{\"err\":\"{:?}\"}}", e).replace('\n', " "),
        Err(m) => format!("{{\"panic\":{}}}", J::s(m.clone()).render()),
    }
}
fn resv_json<F: Fl, E: std::fmt::Debug>(r: &Result<Result<Vec<F>, E>, String>) -> String {
    match r {
        Ok(Ok(v)) => hexes(v),
        Ok(Err(e)) => format!("{{\"err\":\"{:?}\"}}", e),
        Err(m) => format!("{{\"panic\":{}}}", J::s(m.clone()).render()),
    }
}

/// per-thread log buffer
struct Lg {
    buf: String,
    n: u64,
}
impl Lg {
    fn new() -> Lg {
        Lg { buf: String::new(), n: 0 }
    }
    fn rec(&mut self, acc: &mut Acc, op: &str, ty: &str, fields: &str) {
        let _ = write!(self.buf, "{{\"op\":\"{}\",\"ty\":\"{}\",\"sec\":\"{}\",\"k\":{}{}}}\n", op, ty, acc.section, acc.k, fields);
        self.n += 1;
        acc.eval();
        acc.count(&format!("op_{}", op));
        if self.buf.len() > (1 << 18) {
            self.flush();
        }
    }
    fn flush(&mut self) {
        if !self.buf.is_empty() {
            log_lines(&self.buf);
            self.buf.clear();
        }
    }
}
impl Drop for Lg {
    fn drop(&mut self) {
        self.flush();
    }
}
thread_local! {
    static LG: std::cell::RefCell<Lg> = std::cell::RefCell::new(Lg::new());
}
fn rec(acc: &mut Acc, op: &str, ty: &str, fields: String) {
    LG.with(|l| l.borrow_mut().rec(acc, op, ty, &fields));
}
fn flush_thread_log() {
    LG.with(|l| l.borrow_mut().flush());
}

// ---------------------------------------------------------------------------
// generators
// ---------------------------------------------------------------------------
fn gen_data<F: Fl>(rng: &mut Rng, n: usize, class: usize) -> Vec<F> {
    let small = F::IS32;
    let v: Vec<f64> = match class % 9 {
        0 => (0..n).map(|_| rng.unit() * 2.0 - 1.0).collect(),
        1 => {
            // cancelling signs
            let mut v = vec![];
            while v.len() < n {
                let x = rng.normal() * 10f64.powi(rng.range(-2, 3) as i32);
                v.push(x);
                v.push(-x * (1.0 + rng.normal() * 1e-9));
            }
            v.truncate(n);
            rng.shuffle(&mut v);
            v
        }
        2 => {
            let e = if small { rng.range(0, 3) } else { rng.range(0, 12) };
            let off = 10f64.powi(e as i32) * if rng.chance(0.3) { -1.0 } else { 1.0 };
            let spread = *rng.pick(&[1.0, 0.1, 1e-2]);
            (0..n).map(|_| off + rng.normal() * spread).collect()
        }
        3 => {
            let m = if small { 4 } else { 8 };
            (0..n).map(|_| rng.normal() * 10f64.powi(rng.range(-m, m) as i32)).collect()
        }
        4 => (0..n).map(|_| 0.1 + rng.unit() * 10.0).collect(),
        5 => (0..n).map(|_| rng.range(-20, 20) as f64).collect(),
        6 => {
            let c = rng.normal() * 100.0;
            vec![c; n]
        }
        7 => {
            // large mean relative to spread (up to 1e8 for f64, 1e3 for f32)
            let off = if small { 1.0e3 } else { 1.0e8 };
            (0..n).map(|_| off + rng.unit() * 2.0).collect()
        }
        _ => {
            // mean of order one, spread many orders of magnitude smaller (exactly representable grid)
            let e = if small { rng.range(12, 18) } else { rng.range(30, 45) };
            let off = *rng.pick(&[0.5, 1.0, -0.75, 3.0]);
            (0..n).map(|_| off + rng.range(-9, 9) as f64 * 2f64.powi(-(e as i32))).collect()
        }
    };
    v.into_iter().map(F::of).collect()
}

fn gen_positive<F: Fl>(rng: &mut Rng, n: usize) -> Vec<F> {
    let m = if F::IS32 { 4 } else { 8 };
    match rng.below(7) {
        6 if n >= 4 => {
            // values of order one except two tiny and two huge ones whose product is of order one again: a running
            // product would dip into the subnormal range of the element type (or overflow) on the way
            let (lo, hi) = if F::IS32 { (-22.0, -19.0) } else { (-160.0, -152.0) };
            let mut v: Vec<f64> = (0..n).map(|_| 0.5 + rng.unit() * 1.5).collect();
            let mut pos: Vec<usize> = (0..n).collect();
            rng.shuffle(&mut pos);
            let mut four = [pos[0], pos[1], pos[2], pos[3]];
            if rng.chance(0.7) {
                four.sort_unstable();
            }
            let (e1, e2) = (lo + rng.unit() * (hi - lo), lo + rng.unit() * (hi - lo));
            v[four[0]] = 10f64.powf(e1);
            v[four[1]] = 10f64.powf(e2);
            v[four[2]] = 10f64.powf(-e1 + rng.unit());
            v[four[3]] = 10f64.powf(-e2 - rng.unit());
            v.into_iter().map(F::of).collect()
        }
        4 | 5 | 6 => {
            // independent magnitudes over most of the exponent range (reciprocals and their sum stay finite)
            let a = if F::IS32 { 25.0 } else { 250.0 };
            (0..n).map(|_| F::of(10f64.powf(rng.unit() * 2.0 * a - a))).collect()
        }
        0 => (0..n).map(|_| F::of(0.1 + rng.unit() * 10.0)).collect(),
        1 => (0..n).map(|_| F::of(10f64.powf(rng.unit() * 2.0 * m as f64 - m as f64))).collect(),
        2 => {
            // all values within one decade around 10^e (small and large geometric means)
            let e = if F::IS32 { rng.range(-20, 20) } else { rng.range(-100, 100) } as f64;
            (0..n).map(|_| F::of(10f64.powf(e + rng.unit()))).collect()
        }
        _ => (0..n).map(|_| F::of(1.0e3 + rng.unit())).collect(),
    }
}

fn gen_weights<F: Fl>(rng: &mut Rng, n: usize, class: usize) -> Vec<F> {
    let v: Vec<f64> = match class % 5 {
        0 => vec![1.0; n],
        1 => (0..n).map(|_| 0.01 + rng.unit() * 10.0).collect(),
        2 => {
            let m = if F::IS32 { 3.0 } else { 6.0 };
            (0..n).map(|_| 10f64.powf(rng.unit() * 2.0 * m - m)).collect()
        }
        3 => {
            // zeros, including a leading zero; total stays positive
            let mut w: Vec<f64> = (0..n).map(|_| *rng.pick(&[0.0, 1.0, 3.0, 0.5])).collect();
            if rng.chance(0.5) {
                w[0] = 0.0;
            }
            let j = rng.below(n);
            w[j] = 2.0;
            w
        }
        _ => (0..n).map(|_| rng.range(1, 5) as f64).collect(),
    };
    v.into_iter().map(F::of).collect()
}

/// weights of mixed sign for the sum-type routines, often summing exactly to zero (difference stencils, contrasts)
fn gen_signed_weights<F: Fl>(rng: &mut Rng, n: usize) -> Vec<F> {
    let mut w: Vec<f64> = match rng.below(3) {
        0 => (0..n).map(|i| [1.0, -2.0, 1.0][i % 3]).collect(),
        1 => (0..n).map(|i| if i % 2 == 0 { 1.0 } else { -1.0 }).collect(),
        _ => (0..n).map(|_| rng.range(-4, 4) as f64 * 0.5).collect(),
    };
    if rng.chance(0.6) {
        // force an exact zero total
        let s: f64 = w.iter().sum();
        w[n - 1] -= s;
    }
    w.into_iter().map(F::of).collect()
}

fn gen_shape_axis(rng: &mut Rng, block_sizes: bool) -> (Vec<usize>, usize) {
    let nd = *rng.pick(&[1usize, 1, 2, 2, 3, 3, 4, 5]);
    let axis = rng.below(nd);
    let small = if nd >= 4 { 3 } else { 4 };
    let mut shape: Vec<usize> = (0..nd).map(|_| 1 + rng.below(small)).collect();
    let long = rng.chance(0.08);
    shape[axis] = 1 + rng.below(if nd == 1 && long { 300 } else { 64 / (nd * nd) + 4 });
    // element counts / lane lengths at and around powers of two and multiples of 128 (blocked accumulations)
    if block_sizes && rng.chance(0.06) {
        if nd == 1 {
            shape[0] = *rng.pick(&[127usize, 128, 129, 256, 384, 512, 1024, 4096, 8192]);
        } else if nd == 2 {
            if rng.chance(0.5) {
                shape[axis] = *rng.pick(&[128usize, 256]);
                shape[1 - axis] = 1 + rng.below(3);
            } else {
                shape = vec![16, 8];
            }
        } else if nd == 3 {
            shape = vec![4, 8, 4];
        }
    }
    (shape, axis)
}

fn rlay(rng: &mut Rng, nd: usize) -> Layout {
    if rng.chance(0.2) {
        Layout::canonical(nd)
    } else {
        Layout::random(nd, rng)
    }
}

/// 1-D view of lane `idx` (index over the remaining axes) along `axis` of a dynamic-dimensional view
fn lane_view<'a, F: Clone>(v: &ArrayViewD<'a, F>, axis: usize, idx: &[usize]) -> ArrayView1<'a, F> {
    let mut lv = v.clone();
    let nd = lv.ndim();
    // collapse the other axes from the last to the first so that axis numbers stay valid
    let mut j = idx.len();
    for a in (0..nd).rev() {
        if a == axis {
            continue;
        }
        j -= 1;
        lv = lv.index_axis_move(Axis(a), idx[j]);
    }
    lv.into_dimensionality::<Ix1>().unwrap()
}

// ---------------------------------------------------------------------------
// C06 / C07 / C18(axis==lane): floats
// ---------------------------------------------------------------------------
fn summary_case<F: Fl>(rng: &mut Rng, acc: &mut Acc, prop: &str) {
    // the variance / moment oracles replay recurrences in exact rationals: keep their inputs short
    let (shape, axis) = gen_shape_axis(rng, prop == "C06");
    let nd = shape.len();
    let n: usize = shape.iter().product();
    let dclass = rng.below(9);
    let mut data: Vec<F> = gen_data::<F>(rng, n, dclass);
    let wclass = rng.below(5);
    let mut wfull: Vec<F> = gen_weights::<F>(rng, n, wclass);
    let mut waxis: Vec<F> = gen_weights::<F>(rng, shape[axis], wclass);
    if prop == "C07" {
        // (a) the whole data set rescaled by a power of ten far from one (deviations of 1e3..1e8 / 1e-3..1e-8 in f32,
        //     1e20..1e70 / 1e-20..1e-70 in f64): the low-order moments and their ratios stay in range
        if rng.chance(0.15) {
            let e = if F::IS32 { rng.range(3, 9) } else { rng.range(20, 71) } as i32 * if rng.chance(0.5) { 1 } else { -1 };
            let sc = F::of(10f64.powi(e));
            for x in data.iter_mut() {
                *x = *x * sc;
            }
            acc.count("data_rescaled_by_power_of_ten");
        }
        // (b) a late observation far from the rest whose weight is below half an ulp of the running total: it does
        //     not change the total, but its contribution to the sum of squares is far from negligible (never combined
        //     with (a): the squared deviations must stay inside the exponent range)
        else if rng.chance(0.14) {
            let u = if F::IS32 { 2f64.powi(-24) } else { 2f64.powi(-53) };
            let spread = F::of(*rng.pick(&[1.0e4, 3.0e3, 1.0e5]));
            let mut moved = usize::MAX;
            if n >= 3 {
                let j = n - 1 - rng.below(n / 2);
                let tot = wfull.iter().fold(F::of(0.0), |a, &b| a + b);
                wfull[j] = tot * F::of(u * 0.3);
                data[j] = data[j] + spread * (F::of(1.0) + data[j].abs());
                moved = j;
            }
            let m = shape[axis];
            if m >= 3 {
                let j = m - 1 - rng.below(m / 2);
                let tot = waxis.iter().fold(F::of(0.0), |a, &b| a + b);
                waxis[j] = tot * F::of(u * 0.3);
                // every lane's j-th observation moves far away
                for l in lanes_of(&shape, axis) {
                    let i = l[j];
                    if i != moved {
                        data[i] = data[i] + spread * (F::of(1.0) + data[i].abs());
                    }
                }
            }
            acc.count("tiny_weight_on_a_far_observation");
        }
    }
    let (data, wfull, waxis) = (data, wfull, waxis);
    let (ld, lw, lw1) = (rlay(rng, nd), rlay(rng, nd), rlay(rng, 1));
    let ed = Embedded::new(&shape, &data, ld.clone());
    let ew = Embedded::new(&shape, &wfull, lw.clone());
    let ew1 = Embedded::new(&[shape[axis]], &waxis, lw1.clone());
    let v = ed.view();
    let w = ew.view();
    let w1 = ew1.view().into_dimensionality::<Ix1>().unwrap();
    let ty = F::TY;
    let meta = format!(",\"shape\":{:?},\"axis\":{},\"lay\":\"{}/{}\",\"dclass\":{},\"wclass\":{}", shape, axis, ld.class(), lw.class(), dclass, wclass);
    acc.count(&format!("layout_pair_{}_{}", ld.class(), lw.class()));
    let xs = hexes(&data);
    let lanes = lanes_of(&shape, axis);
    let mut rem = shape.clone();
    rem.remove(axis);
    if prop == "C06" {
        let r = catch(|| SummaryStatisticsExt::mean(&v));
        rec(acc, "mean", ty, format!("{},\"x\":{},\"r\":{}", meta, xs, res_json(&r)));
        let r = catch(|| v.weighted_sum(&w));
        rec(acc, "weighted_sum", ty, format!("{},\"x\":{},\"w\":{},\"r\":{}", meta, xs, hexes(&wfull), res_json(&r)));
        let r = catch(|| v.weighted_mean(&w));
        rec(acc, "weighted_mean", ty, format!("{},\"x\":{},\"w\":{},\"r\":{}", meta, xs, hexes(&wfull), res_json(&r)));
        // weights of mixed sign (total often exactly zero): only the sum-type routines are defined for them
        if rng.chance(0.3) {
            let ws = gen_signed_weights::<F>(rng, n);
            let ws1 = gen_signed_weights::<F>(rng, shape[axis]);
            let es = Embedded::new(&shape, &ws, lw.clone());
            let es1 = Embedded::new(&[shape[axis]], &ws1, lw1.clone());
            let v = v.view(); // reborrow with the lifetime of the local weight arrays (`weights: &Self`)
            let r = catch(|| v.weighted_sum(&es.view()));
            rec(acc, "weighted_sum", ty, format!("{},\"x\":{},\"w\":{},\"r\":{}", meta, xs, hexes(&ws), res_json(&r)));
            let wv1 = es1.view().into_dimensionality::<Ix1>().unwrap();
            let rs = catch(|| v.weighted_sum_axis(Axis(axis), &wv1));
            for (li, l) in lanes.iter().enumerate() {
                let lane: Vec<F> = l.iter().map(|&i| data[i]).collect();
                let idx = unravel(li, &rem);
                let got: Result<Result<F, String>, String> = match &rs {
                    Ok(Ok(a)) if a.shape() == &rem[..] => Ok(Ok(a[IxDyn(&idx)])),
                    Ok(Ok(a)) => Ok(Err(format!("shape {:?}", a.shape()))),
                    Ok(Err(e)) => Ok(Err(format!("{:?}", e))),
                    Err(m) => Err(m.clone()),
                };
                let lv = lane_view(&v, axis, &idx);
                let r3 = catch(|| lv.weighted_sum(&wv1));
                rec(acc, "weighted_sum_axis", ty, format!("{},\"lane\":{},\"x\":{},\"w\":{},\"r\":{},\"r3\":{}", meta, li, hexes(&lane), hexes(&ws1), res_json(&got), res_json(&r3)));
            }
            acc.count("signed_weight_cases");
        }
        // positive data for harmonic / geometric (harmonic also on mixed-sign data without zeros)
        let pos: Vec<F> = gen_positive::<F>(rng, n);
        let ep = Embedded::new(&shape, &pos, ld.clone());
        let r = catch(|| ep.view().harmonic_mean());
        rec(acc, "harmonic_mean", ty, format!("{},\"x\":{},\"r\":{}", meta, hexes(&pos), res_json(&r)));
        let r = catch(|| ep.view().geometric_mean());
        rec(acc, "geometric_mean", ty, format!("{},\"x\":{},\"r\":{}", meta, hexes(&pos), res_json(&r)));
        if data.iter().all(|x| *x != F::zero()) {
            let r = catch(|| v.harmonic_mean());
            rec(acc, "harmonic_mean", ty, format!("{},\"x\":{},\"r\":{}", meta, xs, res_json(&r)));
        }
        // per-axis forms: one record per lane, with the whole-array routine on the owned lane as r2
        let rs = catch(|| v.weighted_sum_axis(Axis(axis), &w1));
        let rm = catch(|| v.weighted_mean_axis(Axis(axis), &w1));
        let wown = Array1::from(waxis.clone());
        for (li, l) in lanes.iter().enumerate() {
            let lane: Vec<F> = l.iter().map(|&i| data[i]).collect();
            let lown = Array1::from(lane.clone());
            let idx = unravel(li, &rem);
            let pick = |r: &Result<Result<ArrayD<F>, ndarray_stats::errors::MultiInputError>, String>| -> Result<Result<F, String>, String> {
                match r {
                    Ok(Ok(a)) => {
                        if a.shape() != &rem[..] {
                            Ok(Err(format!("shape {:?}", a.shape())))
                        } else {
                            Ok(Ok(a[IxDyn(&idx)]))
                        }
                    }
                    Ok(Err(e)) => Ok(Err(format!("{:?}", e))),
                    Err(m) => Err(m.clone()),
                }
            };
            let r2 = catch(|| lown.weighted_sum(&wown));
            // the same whole-array routine applied to the lane as it lies in the (strided / reversed) array, with the
            // weights view in its own layout
            let lv = lane_view(&v, axis, &idx);
            let r3 = catch(|| lv.weighted_sum(&w1));
            rec(acc, "weighted_sum_axis", ty, format!("{},\"lane\":{},\"x\":{},\"w\":{},\"r\":{},\"r2\":{},\"r3\":{}", meta, li, hexes(&lane), hexes(&waxis), res_json(&pick(&rs)), res_json(&r2), res_json(&r3)));
            let r2 = catch(|| lown.weighted_mean(&wown));
            // the same whole-array routine applied to the lane as it lies in the (strided / reversed) array, with the
            // weights view in its own layout
            let lv = lane_view(&v, axis, &idx);
            let r3 = catch(|| lv.weighted_mean(&w1));
            rec(acc, "weighted_mean_axis", ty, format!("{},\"lane\":{},\"x\":{},\"w\":{},\"r\":{},\"r2\":{},\"r3\":{}", meta, li, hexes(&lane), hexes(&waxis), res_json(&pick(&rm)), res_json(&r2), res_json(&r3)));
        }
    }
    if prop == "C07" && rng.chance(0.12) && n >= 3 {
        // a masked outlier: the first observation (logical order) has weight zero and lies far from the data
        let far = F::of(*rng.pick(&[1.0e6, -3.0e9, 1.0e16, -1.0e12]));
        let mut d2 = data.clone();
        let mut w2 = wfull.clone();
        d2[0] = far;
        w2[0] = F::zero();
        if w2.iter().any(|w| *w > F::zero()) {
            let e2 = Embedded::new(&shape, &d2, ld.clone());
            let ew2 = Embedded::new(&shape, &w2, lw.clone());
            let dd = F::of(*rng.pick(&[0.0, 1.0, 0.5]));
            let r = catch(|| e2.view().weighted_var(&ew2.view(), dd));
            rec(acc, "weighted_var", ty, format!("{},\"x\":{},\"w\":{},\"ddof\":\"{}\",\"r\":{}", meta, hexes(&d2), hexes(&w2), dd.hex(), res_json(&r)));
            let r = catch(|| e2.view().weighted_std(&ew2.view(), dd));
            rec(acc, "weighted_std", ty, format!("{},\"x\":{},\"w\":{},\"ddof\":\"{}\",\"r\":{}", meta, hexes(&d2), hexes(&w2), dd.hex(), res_json(&r)));
            acc.count("masked_outlier_cases");
        }
    }
    if prop == "C07" {
        let ddof = F::of(*rng.pick(&[0.0, 1.0, 0.25, 0.5]));
        let r = catch(|| v.weighted_var(&w, ddof));
        rec(acc, "weighted_var", ty, format!("{},\"x\":{},\"w\":{},\"ddof\":\"{}\",\"r\":{}", meta, xs, hexes(&wfull), ddof.hex(), res_json(&r)));
        let r = catch(|| v.weighted_std(&w, ddof));
        rec(acc, "weighted_std", ty, format!("{},\"x\":{},\"w\":{},\"ddof\":\"{}\",\"r\":{}", meta, xs, hexes(&wfull), ddof.hex(), res_json(&r)));
        let p = rng.below(if acc.prop == "C07" { 9 } else { 11 }) as u16;
        let r = catch(|| v.central_moment(p));
        rec(acc, "central_moment", ty, format!("{},\"x\":{},\"p\":{},\"r\":{}", meta, xs, p, res_json(&r)));
        let r = catch(|| v.central_moments(p));
        rec(acc, "central_moments", ty, format!("{},\"x\":{},\"p\":{},\"r\":{}", meta, xs, p, resv_json(&r)));
        let r = catch(|| v.skewness());
        rec(acc, "skewness", ty, format!("{},\"x\":{},\"r\":{}", meta, xs, res_json(&r)));
        let r = catch(|| v.kurtosis());
        rec(acc, "kurtosis", ty, format!("{},\"x\":{},\"r\":{}", meta, xs, res_json(&r)));
        let rv = catch(|| v.weighted_var_axis(Axis(axis), &w1, ddof));
        let rs = catch(|| v.weighted_std_axis(Axis(axis), &w1, ddof));
        let wown = Array1::from(waxis.clone());
        for (li, l) in lanes.iter().enumerate() {
            let lane: Vec<F> = l.iter().map(|&i| data[i]).collect();
            let lown = Array1::from(lane.clone());
            let idx = unravel(li, &rem);
            let pick = |r: &Result<Result<ArrayD<F>, ndarray_stats::errors::MultiInputError>, String>| -> Result<Result<F, String>, String> {
                match r {
                    Ok(Ok(a)) => {
                        if a.shape() != &rem[..] {
                            Ok(Err(format!("shape {:?}", a.shape())))
                        } else {
                            Ok(Ok(a[IxDyn(&idx)]))
                        }
                    }
                    Ok(Err(e)) => Ok(Err(format!("{:?}", e))),
                    Err(m) => Err(m.clone()),
                }
            };
            let r2 = catch(|| lown.weighted_var(&wown, ddof));
            // the same whole-array routine applied to the lane as it lies in the (strided / reversed) array, with the
            // weights view in its own layout
            let lv = lane_view(&v, axis, &idx);
            let r3 = catch(|| lv.weighted_var(&w1, ddof));
            rec(acc, "weighted_var_axis", ty, format!("{},\"lane\":{},\"x\":{},\"w\":{},\"ddof\":\"{}\",\"r\":{},\"r2\":{},\"r3\":{}", meta, li, hexes(&lane), hexes(&waxis), ddof.hex(), res_json(&pick(&rv)), res_json(&r2), res_json(&r3)));
            let r2 = catch(|| lown.weighted_std(&wown, ddof));
            // the same whole-array routine applied to the lane as it lies in the (strided / reversed) array, with the
            // weights view in its own layout
            let lv = lane_view(&v, axis, &idx);
            let r3 = catch(|| lv.weighted_std(&w1, ddof));
            rec(acc, "weighted_std_axis", ty, format!("{},\"lane\":{},\"x\":{},\"w\":{},\"ddof\":\"{}\",\"r\":{},\"r2\":{},\"r3\":{}", meta, li, hexes(&lane), hexes(&waxis), ddof.hex(), res_json(&pick(&rs)), res_json(&r2), res_json(&r3)));
        }
    }
    if n >= 2 {
        acc.nontrivial(h64(&(ty, &shape, axis, &ld, &lw, data.iter().map(|x| x.bits()).collect::<Vec<_>>(), wfull.iter().map(|x| x.bits()).collect::<Vec<_>>())));
    }
    acc.sample(|| J::obj(vec![("ty", J::s(ty)), ("shape", J::us(&shape)), ("axis", J::u(axis)), ("data_layout", ld.to_json()), ("weights_layout", lw.to_json()), ("data_head", J::A(data.iter().take(6).map(|x| J::s(x.show())).collect())), ("weights_head", J::A(wfull.iter().take(6).map(|x| J::s(x.show())).collect()))]));
}

/// C18: per-axis == whole-array on the owned lane, and central_moments(p)[k] == central_moment(k) bit for bit
fn c18_num_case<F: Fl>(rng: &mut Rng, acc: &mut Acc) {
    // (a) moments, in-process bit equality
    let (shape, _axis) = gen_shape_axis(rng, false);
    let n: usize = shape.iter().product();
    let dclass = rng.below(9);
    let data: Vec<F> = gen_data::<F>(rng, n, dclass);
    let ld = rlay(rng, shape.len());
    let ed = Embedded::new(&shape, &data, ld.clone());
    let v = ed.view();
    let p = rng.below(11) as u16;
    acc.eval();
    let bulk = catch(|| v.central_moments(p));
    match bulk {
        Ok(Ok(ms)) => {
            if ms.len() != p as usize + 1 {
                acc.violation("moments_len", None, J::obj(vec![("what", J::s(format!("central_moments({}) returned {} entries", p, ms.len()))), ("ty", J::s(F::TY))]));
                return;
            }
            for k in 0..=p {
                acc.eval();
                let single = catch(|| v.central_moment(k));
                let ok = match &single {
                    Ok(Ok(s)) => s.bits() == ms[k as usize].bits() || (s.is_nan() && ms[k as usize].is_nan()),
                    _ => false,
                };
                if !ok {
                    acc.violation(
                        "moments_bulk_vs_single",
                        None,
                        J::obj(vec![("what", J::s(format!("central_moments({})[{}] = {:?} but central_moment({}) = {:?}", p, k, ms[k as usize], k, single))), ("ty", J::s(F::TY)), ("shape", J::us(&shape)), ("layout", ld.to_json()), ("x", J::A(data.iter().take(64).map(|x| J::s(x.show())).collect()))]),
                    );
                    return;
                }
            }
        }
        other => {
            acc.violation("moments_bulk_vs_single", None, J::obj(vec![("what", J::s(format!("central_moments({}) on non-empty data: {:?}", p, other))), ("ty", J::s(F::TY))]));
            return;
        }
    }
    acc.count("moment_lists_compared");
    // (b) per-axis weighted sum / variance / standard deviation vs the whole-array routine applied to the lane VIEW
    // with the same weights view, for weights of mixed sign: both run the same recurrence over the same logical
    // sequence, so the results must be bit-identical (no oracle needed)
    {
        let (shape, axis) = gen_shape_axis(rng, false);
        let nd = shape.len();
        let n: usize = shape.iter().product();
        let dc = rng.below(9);
        let data: Vec<F> = gen_data::<F>(rng, n, dc);
        let mut w: Vec<F> = (0..shape[axis]).map(|_| F::of(*rng.pick(&[1.0, 2.0, -0.5, 0.0, 3.0, -1.0, 0.25]))).collect();
        let j = rng.below(shape[axis]);
        w[j] = F::of(16.0); // keeps the total positive
        let ddof_v = *rng.pick(&[0.0, 1.0, 0.5]);
        if rng.chance(0.15) {
            // a single effective observation: every weight zero but one, which may equal ddof (0/0 in both forms)
            for x in w.iter_mut() {
                *x = F::of(0.0);
            }
            w[j] = F::of(*rng.pick(&[1.0, 0.5, 2.0, ddof_v, ddof_v]));
            acc.count("weights_single_effective_observation");
        }
        let (ld, lw1) = (rlay(rng, nd), rlay(rng, 1));
        let ed = Embedded::new(&shape, &data, ld.clone());
        let ew = Embedded::new(&[shape[axis]], &w, lw1.clone());
        let v = ed.view();
        let w1 = ew.view().into_dimensionality::<Ix1>().unwrap();
        let ddof = F::of(ddof_v);
        let rs = catch(|| v.weighted_sum_axis(Axis(axis), &w1));
        let rv = catch(|| v.weighted_var_axis(Axis(axis), &w1, ddof));
        let rd = catch(|| v.weighted_std_axis(Axis(axis), &w1, ddof));
        let mut rem = shape.clone();
        rem.remove(axis);
        let nl: usize = rem.iter().product();
        for li in 0..nl {
            let idx = unravel(li, &rem);
            let lv = lane_view(&v, axis, &idx);
            let same = |a: Option<F>, b: Option<F>| match (a, b) {
                (Some(x), Some(y)) => x.bits() == y.bits() || (x.is_nan() && y.is_nan()),
                _ => false,
            };
            let pick = |r: &Result<Result<ArrayD<F>, ndarray_stats::errors::MultiInputError>, String>| -> Option<F> {
                match r {
                    Ok(Ok(a)) if a.shape() == &rem[..] => Some(a[IxDyn(&idx)]),
                    _ => None,
                }
            };
            acc.evals += 3;
            let checks: [(&str, Option<F>, Option<F>); 3] = [
                ("weighted_sum_axis", pick(&rs), catch(|| lv.weighted_sum(&w1)).ok().and_then(|r| r.ok())),
                ("weighted_var_axis", pick(&rv), catch(|| lv.weighted_var(&w1, ddof)).ok().and_then(|r| r.ok())),
                ("weighted_std_axis", pick(&rd), catch(|| lv.weighted_std(&w1, ddof)).ok().and_then(|r| r.ok())),
            ];
            for (op, a, b) in checks {
                if !same(a, b) {
                    acc.violation(
                        "axis_vs_lane_bitwise",
                        None,
                        J::obj(vec![("op", J::s(op)), ("ty", J::s(F::TY)), ("shape", J::us(&shape)), ("axis", J::u(axis)), ("lane", J::u(li)), ("weights", J::A(w.iter().map(|x| J::s(x.show())).collect())), ("what", J::s(format!("per-axis element {:?} but the whole-array routine on that lane gives {:?}", a, b)))]),
                    );
                    return;
                }
            }
        }
        acc.count("mixed_sign_weight_lane_comparisons");
    }
    if n >= 2 && p >= 2 {
        acc.nontrivial(h64(&(F::TY, "moments", p, &shape, &ld, data.iter().map(|x| x.bits()).collect::<Vec<_>>())));
    }
    acc.sample(|| J::obj(vec![("ty", J::s(F::TY)), ("op", J::s("central_moments(p)[k] vs central_moment(k), k = 0..=p")), ("p", J::I(p as i128)), ("shape", J::us(&shape)), ("data_head", J::A(data.iter().take(6).map(|x| J::s(x.show())).collect()))]));
}

// ---------------------------------------------------------------------------
// C06 ints: exact in-process
// ---------------------------------------------------------------------------
macro_rules! int_means {
    ($name:ident, $t:ident) => {
        fn $name(rng: &mut Rng, acc: &mut Acc) {
            let (shape, axis) = gen_shape_axis(rng, true);
            let nd = shape.len();
            let n: usize = shape.iter().product();
            // keep sum |terms| <= MAX so no summation order can overflow
            let lim = (($t::MAX as i128) / (n as i128 * 4 + 4)).min(1_000_000) as i64;
            let wl = (lim as f64).sqrt() as i64;
            let data: Vec<$t> = (0..n).map(|_| rng.range(-wl.min(lim), wl.min(lim)) as $t).collect();
            let big: Vec<$t> = (0..n).map(|_| rng.range(-lim, lim) as $t).collect();
            // a third of the cases: weights of mixed sign (stencils / contrasts, total possibly zero)
            let signed = rng.chance(0.33);
            let wlo = if signed { -wl.max(1) } else { 0 };
            let mut wfull: Vec<$t> = (0..n).map(|_| rng.range(wlo, wl.max(1)) as $t).collect();
            let mut waxis: Vec<$t> = (0..shape[axis]).map(|_| rng.range(wlo.max(-3), wl.max(1).min(3)) as $t).collect();
            if signed && rng.chance(0.5) {
                let s: i128 = waxis.iter().map(|&w| w as i128).sum();
                let last = waxis.len() - 1;
                waxis[last] = (waxis[last] as i128 - s) as $t;
                let s: i128 = wfull.iter().map(|&w| w as i128).sum();
                if s.abs() < 1000 {
                    wfull[n - 1] = (wfull[n - 1] as i128 - s) as $t;
                }
            }
            let (ld, lw, lw1) = (rlay(rng, nd), rlay(rng, nd), rlay(rng, 1));
            let ed = Embedded::new(&shape, &data, ld.clone());
            let eb = Embedded::new(&shape, &big, ld.clone());
            let ew = Embedded::new(&shape, &wfull, lw.clone());
            let ew1 = Embedded::new(&[shape[axis]], &waxis, lw1.clone());
            let (v, w) = (ed.view(), ew.view());
            let w1 = ew1.view().into_dimensionality::<Ix1>().unwrap();
            let cj = |op: &str, what: String| J::obj(vec![("op", J::s(op)), ("ty", J::s(stringify!($t))), ("shape", J::us(&shape)), ("axis", J::u(axis)), ("data_layout", ld.to_json()), ("weights_layout", lw.to_json()), ("x", J::A(data.iter().take(40).map(|x| J::I(*x as i128)).collect())), ("w", J::A(wfull.iter().take(40).map(|x| J::I(*x as i128)).collect())), ("what", J::s(what))]);
            // mean on the wide-valued array: exact sum, the type's own truncating division
            acc.eval();
            let s: i128 = big.iter().map(|&x| x as i128).sum();
            let want = (s / n as i128) as $t; // i128 division truncates toward zero like the type's own
            match catch(|| SummaryStatisticsExt::mean(&eb.view())) {
                Ok(Ok(m)) if m == want => {}
                other => {
                    acc.violation("int_exact", None, cj("mean", format!("got {:?}, exact sum {} / {} = {}", other, s, n, want)));
                    return;
                }
            }
            acc.eval();
            let ws: i128 = data.iter().zip(&wfull).map(|(&d, &w)| d as i128 * w as i128).sum();
            match catch(|| v.weighted_sum(&w)) {
                Ok(Ok(m)) if m as i128 == ws => {}
                other => {
                    acc.violation("int_exact", None, cj("weighted_sum", format!("got {:?}, exact {}", other, ws)));
                    return;
                }
            }
            let wtot: i128 = wfull.iter().map(|&w| w as i128).sum();
            if wtot != 0 {
                acc.eval();
                let want = ws / wtot;
                match catch(|| v.weighted_mean(&w)) {
                    Ok(Ok(m)) if m as i128 == want => {}
                    other => {
                        acc.violation("int_exact", None, cj("weighted_mean", format!("got {:?}, exact {} / {} = {}", other, ws, wtot, want)));
                        return;
                    }
                }
            }
            // per-axis: each element against the exact lane value and against the whole-array routine on the owned lane
            let lanes = lanes_of(&shape, axis);
            let mut rem = shape.clone();
            rem.remove(axis);
            let rs = catch(|| v.weighted_sum_axis(Axis(axis), &w1));
            let w1tot: i128 = waxis.iter().map(|&w| w as i128).sum();
            let rm = if w1tot != 0 { Some(catch(|| v.weighted_mean_axis(Axis(axis), &w1))) } else { None };
            let wown = Array1::from(waxis.clone());
            for (li, l) in lanes.iter().enumerate() {
                let lane: Vec<$t> = l.iter().map(|&i| data[i]).collect();
                let exact: i128 = lane.iter().zip(&waxis).map(|(&d, &w)| d as i128 * w as i128).sum();
                let idx = unravel(li, &rem);
                acc.eval();
                let lown = Array1::from(lane.clone());
                let whole = lown.weighted_sum(&wown).ok();
                match &rs {
                    Ok(Ok(a)) if a.shape() == &rem[..] && a[IxDyn(&idx)] as i128 == exact && whole == Some(a[IxDyn(&idx)]) => {}
                    other => {
                        acc.violation("int_exact", None, cj("weighted_sum_axis", format!("lane {}: exact {}, whole-array routine on the lane {:?}, got {:?}", li, exact, whole, other.as_ref().map(|r| r.as_ref().map(|a| a.iter().cloned().collect::<Vec<_>>())))));
                        return;
                    }
                }
                if let Some(rm) = &rm {
                    acc.eval();
                    let want = exact / w1tot;
                    let whole = lown.weighted_mean(&wown).ok();
                    match rm {
                        Ok(Ok(a)) if a.shape() == &rem[..] && a[IxDyn(&idx)] as i128 == want && whole == Some(a[IxDyn(&idx)]) => {}
                        other => {
                            acc.violation("int_exact", None, cj("weighted_mean_axis", format!("lane {}: exact {}, whole {:?}, got {:?}", li, want, whole, other.as_ref().map(|r| r.as_ref().map(|a| a.iter().cloned().collect::<Vec<_>>())))));
                            return;
                        }
                    }
                }
            }
            acc.count(concat!("int_cases_", stringify!($t)));
            if n >= 2 {
                acc.nontrivial(h64(&(stringify!($t), &shape, axis, &ld, &lw, &data, &wfull)));
            }
        }
    };
}
int_means!(int_means_i32, i32);
int_means!(int_means_i64, i64);

// ---------------------------------------------------------------------------
// C08
// ---------------------------------------------------------------------------
fn cov_case<F: Fl>(rng: &mut Rng, acc: &mut Acc) {
    let nv = 1 + rng.below(8);
    let wide = rng.chance(0.2);
    let no = 2 + rng.below(if wide { 63 } else { 16 });
    let mut data: Vec<F> = vec![];
    let mut kinds = vec![];
    for _ in 0..nv {
        let c = *rng.pick(&[0usize, 2, 3, 5, 7, 0, 2]);
        kinds.push(c);
        let mut row = gen_data::<F>(rng, no, c);
        // non-constant rows (for correlation)
        if row.iter().all(|x| *x == row[0]) {
            row[0] = row[0] + F::one();
        }
        data.extend(row);
    }
    // correlated rows: row j = a*row i + noise
    if nv >= 2 && rng.chance(0.5) {
        let a = rng.normal();
        for k in 0..no {
            let x = data[k].to_f64().unwrap();
            data[no + k] = F::of(a * x + rng.normal() * 0.1 * x.abs().max(1e-3));
        }
        if (0..no).all(|k| data[no + k] == data[no]) {
            data[no] = data[no] + F::one();
        }
    }
    // exactly (anti-)collinear variables on an integer grid: rho must be +-1 up to roundoff, never the other sign
    if nv >= 2 && rng.chance(0.15) {
        let a = *rng.pick(&[-2.0, -1.0, -0.5, 0.5, 3.0, -4.0]);
        let b = rng.range(-8, 8) as f64;
        for k in 0..no {
            data[k] = F::of(rng.range(-40, 40) as f64);
        }
        if (0..no).all(|k| data[k] == data[0]) {
            data[0] = data[0] + F::one();
        }
        for k in 0..no {
            data[no + k] = F::of(a * data[k].to_f64().unwrap() + b);
        }
        acc.count("exactly_collinear_pairs");
    }
    // weakly correlated variables: x_k = k - (no-1)/2 (odd), z_k = x_k^2 (even, exactly orthogonal to x after
    // centring), y = z + 2^-e * x: cov(x, y) = 2^-e var(x) exactly, |rho| of the order 1e-9..1e-13 - tiny but far
    // above the roundoff of the definition
    if nv >= 2 && no >= 3 && !F::IS32 && rng.chance(0.08) {
        let e = rng.range(30, 44) as i32;
        let half = (no - 1) as f64 / 2.0;
        for k in 0..no {
            let x = k as f64 - half;
            data[k] = F::of(x);
            data[no + k] = F::of(x * x + 2f64.powi(-e) * x);
        }
        acc.count("weakly_correlated_pairs");
    }
    // integer-valued matrices whose TOTAL sum is exactly zero although the variable means are not (pairs x, -x + small)
    if nv >= 2 && rng.chance(0.1) {
        for k in 0..no {
            let x = rng.range(-30, 30) as f64 + *rng.pick(&[0.0, 0.5, 0.25]);
            data[k] = F::of(x + 2.5);
            data[no + k] = F::of(-x - 2.5);
        }
        for i in 2..nv {
            // remaining variables: antisymmetric in the observation index, so each sums to zero
            for k in 0..no {
                let v = rng.range(1, 20) as f64;
                data[i * no + k] = F::of(if k < no / 2 { v } else if k >= no - no / 2 { 0.0 } else { 0.0 });
            }
            for k in 0..no / 2 {
                let v = data[i * no + k];
                data[i * no + (no - 1 - k)] = -v;
            }
            if (0..no).all(|k| data[i * no + k] == data[i * no]) {
                data[i * no] = F::of(3.0);
                data[i * no + no - 1] = F::of(-3.0);
            }
        }
        acc.count("zero_total_sum_matrices");
    }
    // a quarter of the matrices are rescaled per variable by 10^s (finite data of very large / very small
    // magnitude: products of two variances leave the exponent range long before the data or the covariances do)
    if rng.chance(0.25) {
        let lim = if F::IS32 { 14 } else { 120 };
        for i in 0..nv {
            let s = 10f64.powi(rng.range(-lim, lim) as i32);
            for k in 0..no {
                data[i * no + k] = F::of(data[i * no + k].to_f64().unwrap() * s);
            }
            if (0..no).all(|k| data[i * no + k] == data[i * no]) || (0..no).any(|k| !data[i * no + k].is_finite()) {
                for k in 0..no {
                    data[i * no + k] = F::of(k as f64 + 1.0);
                }
            }
        }
        acc.count("rescaled_matrices");
    }
    let lay = match rng.below(5) {
        0 => Layout::canonical(2),
        1 => Layout::fortran(2),
        _ => Layout::random(2, rng),
    };
    let e = Embedded::new(&[nv, no], &data, lay.clone());
    let v = e.view().into_dimensionality::<Ix2>().unwrap();
    let ddof = F::of(*rng.pick(&[0.0, 1.0, 0.5, no as f64 - 0.75, 0.0, 1.0]));
    let meta = format!(",\"nv\":{},\"no\":{},\"lay\":\"{}\"", nv, no, lay.class());
    acc.count(&format!("layout_{}", lay.class()));
    let flat = |r: Result<Result<Array2<F>, ndarray_stats::errors::EmptyInput>, String>| -> Result<Result<Vec<F>, String>, String> {
        match r {
            Ok(Ok(a)) => {
                if a.shape() != &[nv, nv] {
                    Ok(Err(format!("shape {:?}", a.shape())))
                } else {
                    Ok(Ok(a.iter().cloned().collect()))
                }
            }
            Ok(Err(e)) => Ok(Err(format!("{:?}", e))),
            Err(m) => Err(m),
        }
    };
    let r = flat(catch(|| v.cov(ddof)));
    rec(acc, "cov", F::TY, format!("{},\"x\":{},\"ddof\":\"{}\",\"r\":{}", meta, hexes(&data), ddof.hex(), resv_json(&r)));
    let r = flat(catch(|| v.pearson_correlation()));
    rec(acc, "pearson", F::TY, format!("{},\"x\":{},\"r\":{}", meta, hexes(&data), resv_json(&r)));
    // exact positive affine rescaling of one variable (dyadic a, integer-grid data) and negation of one variable
    if rng.chance(0.4) {
        let grid: Vec<F> = (0..nv * no).map(|_| F::of(rng.range(-64, 64) as f64)).collect();
        let mut g2 = grid.clone();
        let j = rng.below(nv);
        let a = *rng.pick(&[0.5, 2.0, 4.0, 0.25]);
        let b = rng.range(-8, 8) as f64;
        let neg = rng.chance(0.5);
        for k in 0..no {
            let x = grid[j * no + k].to_f64().unwrap();
            g2[j * no + k] = F::of(if neg { -x } else { a * x + b });
        }
        let nonconst = |g: &Vec<F>| (0..nv).all(|i| (0..no).any(|k| g[i * no + k] != g[i * no]));
        if nonconst(&grid) && nonconst(&g2) {
            let e1 = Embedded::new(&[nv, no], &grid, lay.clone());
            let e2 = Embedded::new(&[nv, no], &g2, lay.clone());
            let r1 = flat(catch(|| e1.view().into_dimensionality::<Ix2>().unwrap().pearson_correlation()));
            let r2 = flat(catch(|| e2.view().into_dimensionality::<Ix2>().unwrap().pearson_correlation()));
            rec(acc, "pearson_invariance", F::TY, format!("{},\"x\":{},\"x2\":{},\"var\":{},\"neg\":{},\"r\":{},\"r2\":{}", meta, hexes(&grid), hexes(&g2), j, neg, resv_json(&r1), resv_json(&r2)));
        }
    }
    acc.nontrivial(h64(&(F::TY, nv, no, &lay, data.iter().map(|x| x.bits()).collect::<Vec<_>>())));
    acc.sample(|| J::obj(vec![("ty", J::s(F::TY)), ("variables", J::u(nv)), ("observations", J::u(no)), ("layout", lay.to_json()), ("ddof", J::s(ddof.show())), ("row0_head", J::A(data.iter().take(6).map(|x| J::s(x.show())).collect()))]));
}

// ---------------------------------------------------------------------------
// C09
// ---------------------------------------------------------------------------
fn dev_shape(rng: &mut Rng) -> Vec<usize> {
    let nd = 1 + rng.below(4);
    loop {
        let s: Vec<usize> = (0..nd).map(|_| 1 + rng.below(5)).collect();
        if s.iter().product::<usize>() <= 120 && (nd == 1 || s.windows(2).any(|w| w[0] != w[1]) || rng.chance(0.3)) {
            return s;
        }
    }
}

fn dev_float_case<F: Fl>(rng: &mut Rng, acc: &mut Acc) {
    let shape = dev_shape(rng);
    let nd = shape.len();
    let n: usize = shape.iter().product();
    let ca = rng.below(9);
    let a: Vec<F> = gen_data::<F>(rng, n, ca);
    let mut b: Vec<F> = match rng.below(4) {
        0 => a.clone(),
        1 => a.iter().map(|x| *x + F::of(rng.normal() * 1e-3)).collect(),
        _ => {
            let cb = rng.below(9);
            gen_data::<F>(rng, n, cb)
        }
    };
    if rng.chance(0.3) {
        for i in 0..n {
            if rng.chance(0.5) {
                b[i] = a[i];
            }
        }
    }
    // NaN never equals anything, itself included: some pairs carry NaNs at common and at different positions
    let with_nan = rng.chance(0.2);
    if with_nan {
        for i in 0..n {
            match rng.below(6) {
                0 => {
                    let mut a2 = a.clone();
                    a2[i] = F::nan();
                    let _ = a2;
                }
                _ => {}
            }
        }
    }
    let mut a = a;
    if with_nan {
        for i in 0..n {
            match rng.below(6) {
                0 => a[i] = F::nan(),
                1 => {
                    a[i] = F::nan();
                    b[i] = F::nan();
                }
                2 => b[i] = F::nan(),
                _ => {}
            }
        }
        acc.count("pairs_with_nan");
    }
    let (fa, fb) = (rng.below(8), rng.below(8));
    let (mut la, mut lb) = (Layout::family(nd, fa), Layout::family(nd, fb));
    if rng.chance(0.2) {
        // BOTH operands in the same non-contiguous layout with a unit inner stride: a window of columns of a wider
        // parent, or every other row (identical strides, all positive, innermost 1 - and still not contiguous)
        let mut l = Layout::canonical(nd);
        if rng.chance(0.5) {
            l.pad_b[nd - 1] = rng.below(3);
            l.pad_a[nd - 1] = 1 + rng.below(3);
        } else {
            l.step[0] = 2;
            if nd >= 2 && rng.chance(0.5) {
                l.pad_a[nd - 1] = 1;
            }
        }
        la = l.clone();
        lb = l;
        acc.count("same_noncontiguous_unit_inner_stride_layout_for_both");
    }
    acc.count(&format!("layout_pair_{}_{}", fa, fb));
    let ea = Embedded::new(&shape, &a, la.clone());
    let eb = Embedded::new(&shape, &b, lb.clone());
    let maxv = F::of(*rng.pick(&[1.0, 255.0, 10.0, -255.0, -1.0, 65535.0, 1.0e-3]));
    let meta = format!(",\"shape\":{:?},\"lay\":\"{}/{}\"", shape, la.class(), lb.class());
    // ownership kinds for the two operands
    let own = rng.below(5);
    acc.count(&format!("ownership_{}", ["view_view", "owned_view", "arc_view", "cow_owned", "viewmut_arc"][own]));
    macro_rules! all_ops {
        ($x:expr, $y:expr) => {
            all_ops!($x, $y, &a, &b, n, &meta, &shape)
        };
        ($x:expr, $y:expr, $a:expr, $b:expr, $n:expr, $meta:expr, $shape:expr) => {{
            let x = $x;
            let y = $y;
            let a: &Vec<F> = $a;
            let b: &Vec<F> = $b;
            let n: usize = $n;
            let meta: &String = $meta;
            let shape: &Vec<usize> = $shape;
            let r = catch(|| x.count_eq(y));
            let ce = r.clone();
            let r2 = catch(|| x.count_neq(y));
            // counts judged here (exact)
            acc.eval();
            let want = a.iter().zip(b.iter()).filter(|(p, q)| p == q).count();
            match (&ce, &r2) {
                (Ok(Ok(c)), Ok(Ok(d))) if *c == want && c + d == n => {}
                other => {
                    acc.violation("counts", None, J::obj(vec![("what", J::s(format!("count_eq/count_neq = {:?}, expected {} equal of {}", other, want, n))), ("ty", J::s(F::TY)), ("shape", J::us(shape))]));
                }
            }
            // an array compared with itself (same buffer, same strides): NaN positions still do not count
            acc.eval();
            let want_self = a.iter().filter(|p| p == p).count();
            match catch(|| (x.count_eq(x), x.count_neq(x))) {
                Ok((Ok(c), Ok(d))) if c == want_self && c + d == n => {}
                other => {
                    acc.violation("counts", None, J::obj(vec![("what", J::s(format!("count_eq/count_neq of an array with itself = {:?}, expected {} equal of {} ({} NaN)", other, want_self, n, n - want_self))), ("ty", J::s(F::TY)), ("shape", J::us(shape))]));
                }
            }
            let fields = |r: String| format!("{},\"a\":{},\"b\":{},\"r\":{}", meta, hexes(a), hexes(b), r);
            rec(acc, "sq_l2_dist", F::TY, fields(res_json(&catch(|| x.sq_l2_dist(y)))));
            rec(acc, "l1_dist", F::TY, fields(res_json(&catch(|| x.l1_dist(y)))));
            rec(acc, "linf_dist", F::TY, fields(res_json(&catch(|| x.linf_dist(y)))));
            // derived measures return f64 whatever the element type: log with the returned base values
            let sq = catch(|| x.sq_l2_dist(y));
            let l1 = catch(|| x.l1_dist(y));
            let d64 = |r: Result<Result<f64, ndarray_stats::errors::MultiInputError>, String>| res_json::<f64, _>(&r);
            let base = format!(",\"sq\":{},\"l1\":{},\"n\":{},\"maxv\":\"{}\"", res_json(&sq), res_json(&l1), n, maxv.hex());
            rec(acc, "l2_dist", F::TY, format!("{}{},\"r\":{}", meta, base, d64(catch(|| x.l2_dist(y)))));
            rec(acc, "mean_abs_err", F::TY, format!("{}{},\"r\":{}", meta, base, d64(catch(|| x.mean_abs_err(y)))));
            rec(acc, "mean_sq_err", F::TY, format!("{}{},\"r\":{}", meta, base, d64(catch(|| x.mean_sq_err(y)))));
            rec(acc, "root_mean_sq_err", F::TY, format!("{}{},\"r\":{}", meta, base, d64(catch(|| x.root_mean_sq_err(y)))));
            rec(acc, "peak_signal_to_noise_ratio", F::TY, format!("{}{},\"r\":{}", meta, base, d64(catch(|| x.peak_signal_to_noise_ratio(y, maxv)))));
            // symmetry: swapped operands
            rec(acc, "sym_sq_l2_dist", F::TY, format!("{},\"a\":{},\"b\":{},\"r\":{},\"r2\":{}", meta, hexes(a), hexes(b), res_json(&catch(|| x.sq_l2_dist(y))), res_json(&catch(|| y.sq_l2_dist(x)))));
            rec(acc, "sym_l1_dist", F::TY, format!("{},\"a\":{},\"b\":{},\"r\":{},\"r2\":{}", meta, hexes(a), hexes(b), res_json(&catch(|| x.l1_dist(y))), res_json(&catch(|| y.l1_dist(x)))));
            rec(acc, "sym_linf_dist", F::TY, format!("{},\"a\":{},\"b\":{},\"r\":{},\"r2\":{}", meta, hexes(a), hexes(b), res_json(&catch(|| x.linf_dist(y))), res_json(&catch(|| y.linf_dist(x)))));
        }};
    }
    if rng.chance(0.08) {
        // both operands are views of ONE buffer that start at the same element but pair different elements:
        // 1-D prefix vs every-other element, or a square matrix vs its transpose
        acc.count("aliased_operand_pairs");
        if rng.chance(0.5) || n < 4 {
            let base: Array1<F> = (0..2 * n + 1).map(|i| a[i % n] + F::of((i / n) as f64 * 0.5)).collect();
            let xa = base.slice(ndarray::s![..n]);
            let ya = base.slice(ndarray::s![..2 * n;2]);
            let (a, b): (Vec<F>, Vec<F>) = (xa.to_vec(), ya.to_vec());
            let shape = vec![n];
            let meta = format!(",\"shape\":{:?},\"lay\":\"aliased prefix / stepped\"", shape);
            all_ops!(&xa.into_dyn(), &ya.into_dyn(), &a, &b, n, &meta, &shape);
        } else {
            let m = (n as f64).sqrt().floor() as usize;
            let m = m.max(2);
            let sq: Array2<F> = Array2::from_shape_vec((m, m), (0..m * m).map(|i| a[i % n] + F::of(i as f64 * 0.25)).collect()).unwrap();
            let xa = sq.view();
            let ya = sq.t();
            let (a, b): (Vec<F>, Vec<F>) = (xa.iter().cloned().collect(), ya.iter().cloned().collect());
            let n = m * m;
            let shape = vec![m, m];
            let meta = format!(",\"shape\":{:?},\"lay\":\"aliased matrix / transpose\"", shape);
            all_ops!(&xa.into_dyn(), &ya.into_dyn(), &a, &b, n, &meta, &shape);
        }
        return;
    }
    match own {
        0 => all_ops!(&ea.view(), &eb.view()),
        1 => {
            let o = Embedded::new(&shape, &a, la.clone()).into_owned_sliced();
            all_ops!(&o, &eb.view())
        }
        2 => {
            let o = Embedded::new(&shape, &a, la.clone()).into_owned_sliced().into_shared();
            let _second = o.clone();
            all_ops!(&o, &eb.view())
        }
        3 => {
            let ca = ndarray::CowArray::from(ea.view());
            let o = Embedded::new(&shape, &b, lb.clone()).into_owned_sliced();
            all_ops!(&ca, &o)
        }
        _ => {
            let mut ea2 = Embedded::new(&shape, &a, la.clone());
            let vm = ea2.view_mut();
            let o = Embedded::new(&shape, &b, lb.clone()).into_owned_sliced().into_shared();
            all_ops!(&vm, &o)
        }
    }
    if n >= 2 {
        acc.nontrivial(h64(&(F::TY, &shape, fa, fb, own, a.iter().map(|x| x.bits()).collect::<Vec<_>>(), b.iter().map(|x| x.bits()).collect::<Vec<_>>())));
    }
    acc.sample(|| J::obj(vec![("ty", J::s(F::TY)), ("shape", J::us(&shape)), ("layout_a", la.to_json()), ("layout_b", lb.to_json()), ("a_head", J::A(a.iter().take(5).map(|x| J::s(x.show())).collect())), ("b_head", J::A(b.iter().take(5).map(|x| J::s(x.show())).collect()))]));
}

/// An owned array logically equal to (shape, data) in one of four memory layouts:
/// C order, F order, all axes reversed (negative strides), stepped along the last axis.
fn relayout<T: Clone>(shape: &[usize], data: &[T], f: usize) -> ArrayD<T> {
    let nd = shape.len();
    match f % 6 {
        4 => {
            // a window of columns of a wider owned array: unit inner stride, larger row pitch
            let mut big_shape = shape.to_vec();
            big_shape[nd - 1] += 3;
            let w = shape[nd - 1];
            let rows: usize = shape[..nd - 1].iter().product();
            let mut v = Vec::with_capacity(rows * (w + 3));
            for r in 0..rows {
                v.push(data[0].clone());
                v.extend(data[r * w..(r + 1) * w].iter().cloned());
                v.push(data[0].clone());
                v.push(data[0].clone());
            }
            if data.is_empty() {
                return Array::from_shape_vec(IxDyn(shape), vec![]).unwrap();
            }
            let mut a = Array::from_shape_vec(IxDyn(&big_shape), v).unwrap();
            a.slice_axis_inplace(Axis(nd - 1), ndarray::Slice::new(1, Some(1 + w as isize), 1));
            a
        }
        5 => {
            // every other row of a taller owned array
            let mut big_shape = shape.to_vec();
            big_shape[0] *= 2;
            let inner: usize = shape[1..].iter().product();
            let mut v = Vec::with_capacity(data.len() * 2);
            for r in 0..shape[0] {
                v.extend(data[r * inner..(r + 1) * inner].iter().cloned());
                v.extend(data[r * inner..(r + 1) * inner].iter().rev().cloned());
            }
            let mut a = Array::from_shape_vec(IxDyn(&big_shape), v).unwrap();
            a.slice_axis_inplace(Axis(0), ndarray::Slice::new(0, None, 2));
            a
        }
        0 => Array::from_shape_vec(IxDyn(shape), data.to_vec()).unwrap(),
        1 => {
            let c = Array::from_shape_vec(IxDyn(shape), data.to_vec()).unwrap();
            c.view().reversed_axes().to_owned().reversed_axes()
        }
        2 => {
            let mut rev = data.to_vec();
            rev.reverse();
            let mut a = Array::from_shape_vec(IxDyn(shape), rev).unwrap();
            for ax in 0..nd {
                a.invert_axis(Axis(ax));
            }
            a
        }
        _ => {
            let mut big_shape = shape.to_vec();
            big_shape[nd - 1] *= 2;
            let mut v = Vec::with_capacity(data.len() * 2);
            for x in data {
                v.push(x.clone());
                v.push(data[0].clone());
            }
            let mut a = Array::from_shape_vec(IxDyn(&big_shape), v).unwrap();
            a.slice_axis_inplace(Axis(nd - 1), ndarray::Slice::new(0, None, 2));
            a
        }
    }
}

macro_rules! dev_int_case {
    ($name:ident, $t:ty, $mk:expr, $toi:expr, $lim:expr, $tmax:expr) => {
        fn $name(rng: &mut Rng, acc: &mut Acc) {
            let shape = dev_shape(rng);
            let n: usize = shape.iter().product();
            // one case in seven uses values over half the range of the element type: differences still fit, their
            // squares and sums usually do not - then only the maximum distance (and the counts) are judged
            let tmax0: i128 = $tmax;
            // (only for the fixed-width types up to 64 bits: the harness's own reference sums are 128-bit)
            let wide = rng.chance(0.15) && tmax0 <= i64::MAX as i128;
            let lim: i64 = if wide { (tmax0 / 2 - 1).min(1i128 << 62) as i64 } else { $lim };
            let ai: Vec<i64> = (0..n).map(|_| rng.range(-lim, lim)).collect();
            let mut bi: Vec<i64> = (0..n).map(|_| rng.range(-lim, lim)).collect();
            if rng.chance(0.3) {
                for i in 0..n {
                    if rng.chance(0.6) {
                        bi[i] = ai[i];
                    }
                }
            }
            if rng.chance(0.1) {
                bi = ai.clone();
            }
            let mk = $mk;
            let a: Vec<$t> = ai.iter().map(|&x| mk(x)).collect();
            let b: Vec<$t> = bi.iter().map(|&x| mk(x)).collect();
            let fa = rng.below(12);
            let fb = if rng.chance(0.25) { fa } else { rng.below(12) };
            let xa = Array::from_shape_vec(IxDyn(&shape), a.clone()).unwrap();
            let xb = Array::from_shape_vec(IxDyn(&shape), b.clone()).unwrap();
            let va = relayout(&shape, &a, fa);
            let vb = relayout(&shape, &b, fb);
            if va != xa || vb != xb {
                acc.harness_error("relayout changed logical content".into());
                return;
            }
            let toi = $toi;
            let cj = |op: &str, what: String| J::obj(vec![("op", J::s(op)), ("ty", J::s(stringify!($t))), ("shape", J::us(&shape)), ("a", J::A(ai.iter().take(40).map(|x| J::I(*x as i128)).collect())), ("b", J::A(bi.iter().take(40).map(|x| J::I(*x as i128)).collect())), ("what", J::s(what))]);
            let diffs: Vec<i128> = ai.iter().zip(&bi).map(|(&x, &y)| x as i128 - y as i128).collect();
            // (saturating: with values over half the range of a 64-bit type the exact sum of squares exceeds 128 bits;
            // a saturated value is far above the type's maximum, which is all that is asked of it then)
            let sq: i128 = diffs.iter().fold(0i128, |a, d| a.saturating_add(d.saturating_mul(*d)));
            let l1: i128 = diffs.iter().fold(0i128, |a, d| a.saturating_add(d.abs()));
            let linf: i128 = diffs.iter().map(|d| d.abs()).max().unwrap_or(0);
            let eq = diffs.iter().filter(|d| **d == 0).count();
            acc.evals += 8;
            macro_rules! chk {
                ($op:expr, $got:expr, $want:expr) => {
                    match catch(|| $got) {
                        Ok(Ok(g)) if g == $want => {}
                        other => {
                            acc.violation("int_exact", None, cj($op, format!("got {:?}, exact {:?}", other.map(|r| r.map(|_| "a different value")), $want)));
                            return;
                        }
                    }
                };
            }
            chk!("count_eq", va.count_eq(&vb), eq);
            chk!("count_neq", va.count_neq(&vb), n - eq);
            let tmax: i128 = $tmax;
            if diffs.iter().any(|d| d.abs() > tmax) {
                // a difference is not representable in the element type: outside the property ("that do not overflow")
                acc.count("int_overflow_case_skipped");
                return;
            }
            if sq > tmax || l1 > tmax {
                // sums of (squared) differences overflow, the largest difference does not
                chk!("linf_dist", va.linf_dist(&vb).map(|x| toi(&x)), linf);
                chk!("linf_dist(b,a)", vb.linf_dist(&va).map(|x| toi(&x)), linf);
                acc.count("int_cases_only_linf_representable");
                return;
            }
            chk!("sq_l2_dist", va.sq_l2_dist(&vb).map(|x| toi(&x)), sq);
            chk!("l1_dist", va.l1_dist(&vb).map(|x| toi(&x)), l1);
            chk!("linf_dist", va.linf_dist(&vb).map(|x| toi(&x)), linf);
            // symmetry (exact) and zero for identical arguments
            chk!("sq_l2_dist(b,a)", vb.sq_l2_dist(&va).map(|x| toi(&x)), sq);
            chk!("l1_dist(b,a)", vb.l1_dist(&va).map(|x| toi(&x)), l1);
            chk!("linf_dist(b,a)", vb.linf_dist(&va).map(|x| toi(&x)), linf);
            chk!("sq_l2_dist(a,a)", va.sq_l2_dist(&xa).map(|x| toi(&x)), 0i128);
            chk!("linf_dist(a,a)", va.linf_dist(&xa).map(|x| toi(&x)), 0i128);
            // derived measures as the documented functions (f64) of the exact base values
            let nf = n as f64;
            let close = |g: f64, w: f64| (g == w) || (g - w).abs() <= 4.0 * f64::EPSILON * w.abs() || (g.is_nan() && w.is_nan()) ;
            let sqf = sq as f64;
            let l1f = l1 as f64;
            let derived: Vec<(&str, Result<Result<f64, ndarray_stats::errors::MultiInputError>, String>, f64)> = vec![
                ("l2_dist", catch(|| va.l2_dist(&vb)), sqf.sqrt()),
                ("mean_abs_err", catch(|| va.mean_abs_err(&vb)), l1f / nf),
                ("mean_sq_err", catch(|| va.mean_sq_err(&vb)), sqf / nf),
                ("root_mean_sq_err", catch(|| va.root_mean_sq_err(&vb)), (sqf / nf).sqrt()),
            ];
            for (op, got, want) in derived {
                acc.eval();
                match got {
                    Ok(Ok(g)) if close(g, want) => {}
                    other => {
                        acc.violation("derived", None, cj(op, format!("got {:?}, documented function of the exact distance gives {:e}", other, want)));
                        return;
                    }
                }
            }
            // the peak value is independent of the data: large relative to the type, either sign
            let peak: i64 = {
                let cands: [i64; 8] = [255.min(lim), 100, -100, 255, -255, 30_000, 65_535, -4_000_000_000];
                let mut c = *rng.pick(&cands);
                let tm: i128 = $tmax;
                if (c as i128).abs() > tm {
                    c = (tm as i64).min(100) * if c < 0 { -1 } else { 1 };
                }
                c
            };
            let maxv = mk(peak);
            let mvf = peak as f64;
            acc.eval();
            let want = 10.0 * (mvf * mvf / (sqf / nf)).log10();
            match catch(|| va.peak_signal_to_noise_ratio(&vb, maxv)) {
                Ok(Ok(g)) if close(g, want) || (g - want).abs() <= 1e-12 * (1.0 + want.abs()) || (g.is_infinite() && want.is_infinite() && g.signum() == want.signum()) => {}
                other => {
                    acc.violation("derived", None, cj("peak_signal_to_noise_ratio", format!("got {:?}, 10*log10(maxv^2/mse) = {:e}", other, want)));
                    return;
                }
            }
            acc.count(concat!("int_cases_", stringify!($t)));
            acc.count(&format!("layout_pair_{}_{}", fa % 4, fb % 4));
            if n >= 2 {
                acc.nontrivial(h64(&(stringify!($t), &shape, fa, fb, &ai, &bi)));
            }
        }
    };
}
dev_int_case!(dev_i8, i8, |x: i64| x as i8, |x: &i8| *x as i128, 2, i8::MAX as i128);
dev_int_case!(dev_i16, i16, |x: i64| x as i16, |x: &i16| *x as i128, 12, i16::MAX as i128);
dev_int_case!(dev_i32, i32, |x: i64| x as i32, |x: &i32| *x as i128, 2000, i32::MAX as i128);
dev_int_case!(dev_i64, i64, |x: i64| x, |x: &i64| *x as i128, 100_000_000, i64::MAX as i128);
dev_int_case!(dev_i128, i128, |x: i64| x as i128, |x: &i128| *x, 1_000_000_000_000, i128::MAX);
dev_int_case!(dev_bigint, BigInt, |x: i64| BigInt::from(x), |x: &BigInt| x.to_i128().unwrap(), 1_000_000_000_000, i128::MAX);

// ---------------------------------------------------------------------------
// C10
// ---------------------------------------------------------------------------
fn entropy_case<F: Fl>(rng: &mut Rng, acc: &mut Acc) {
    let nd = 1 + rng.below(3);
    let shape: Vec<usize> = loop {
        let s: Vec<usize> = (0..nd).map(|_| 1 + rng.below(if nd == 1 { 64 } else { 6 })).collect();
        if s.iter().product::<usize>() <= 64 {
            break s;
        }
    };
    let shape: Vec<usize> = if rng.chance(0.006) {
        // element counts at powers of two / multiples of 128 and 4096 (blocked accumulations)
        rng.pick(&[vec![4096usize], vec![64, 64], vec![16, 8, 32], vec![128], vec![16, 8], vec![256], vec![4095]]).clone()
    } else {
        shape
    };
    let nd = shape.len();
    let n: usize = shape.iter().product();
    let (lo, hi) = if F::IS32 { (-20.0, 3.0) } else { (-30.0, 3.0) };
    let genp = |rng: &mut Rng| -> Vec<f64> {
        match rng.below(4) {
            0 => (0..n).map(|_| rng.unit() + 1e-3).collect(),
            1 => (0..n).map(|_| 10f64.powf(lo + rng.unit() * (hi - lo))).collect(),
            2 => (0..n).map(|_| *rng.pick(&[0.0, 0.5, 0.25, 1.0, 2.0])).collect(),
            _ => (0..n).map(|_| rng.range(1, 9) as f64 / 8.0).collect(),
        }
    };
    let mut p = genp(rng);
    let mut q = match rng.below(5) {
        0 => p.iter().map(|x| x * (1.0 + rng.normal() * 1e-6)).collect::<Vec<f64>>(),
        1 => p.clone(),
        2 => {
            // q close to one against an unnormalised p far from one: |ln q| << |ln p|
            for x in p.iter_mut() {
                *x = (1 + rng.below(9)) as f64 * *rng.pick(&[1.0, 100.0, 1000.0]);
            }
            (0..n).map(|_| 1.0 + rng.normal() * 1e-4).collect::<Vec<f64>>()
        }
        _ => genp(rng),
    };
    // zeros in p, in q, in both (half of the arrays have none, so that the finite identities are exercised)
    let with_zeros = rng.chance(0.5);
    for i in 0..(if with_zeros { n } else { 0 }) {
        match rng.below(12) {
            0 => p[i] = 0.0,
            1 => q[i] = 0.0,
            2 => {
                p[i] = 0.0;
                q[i] = 0.0
            }
            _ => {}
        }
    }
    let normalise = rng.chance(0.5);
    if normalise {
        let sp: f64 = p.iter().sum();
        let sq: f64 = q.iter().sum();
        if sp > 0.0 && sq > 0.0 {
            for i in 0..n {
                p[i] /= sp;
                q[i] /= sq;
            }
        }
    }
    // NaN placements
    let nan_mode = rng.below(10);
    let mut pf: Vec<F> = p.iter().map(|&x| F::of(x)).collect();
    let mut qf: Vec<F> = q.iter().map(|&x| F::of(x)).collect();
    if nan_mode == 0 {
        let i = rng.below(n);
        pf[i] = F::nan();
    } else if nan_mode == 1 {
        let i = rng.below(n);
        qf[i] = F::nan();
    } else if nan_mode == 2 {
        // NaN in q paired with p = 0 does not contribute
        let i = rng.below(n);
        pf[i] = F::zero();
        qf[i] = F::nan();
    }
    // a positive subnormal p_i still contributes: paired with q_i = 0 the cross-entropy and KL are +inf (q_i is kept
    // at 0 or tiny so that q/p stays inside the exponent range)
    if nan_mode >= 3 && rng.chance(0.15) {
        let i = rng.below(n);
        pf[i] = if F::IS32 { F::of(1.0e-41) } else { F::of(3.0e-320) };
        qf[i] = if rng.chance(0.7) { F::zero() } else { pf[i] + pf[i] };
        acc.count("subnormal_p_cases");
    }
    // ratios q_i / p_i beyond the exponent range of the element type (known finding F9: the quotient overflows or
    // underflows before the logarithm is taken)
    if nan_mode >= 3 && rng.chance(0.04) {
        let i = rng.below(n);
        if rng.chance(0.5) {
            pf[i] = if F::IS32 { F::of(1.0e-41) } else { F::of(3.0e-320) };
            qf[i] = F::of(0.5);
        } else {
            pf[i] = if F::IS32 { F::of(1.0e25) } else { F::of(1.0e200) };
            qf[i] = if F::IS32 { F::of(1.0e-25) } else { F::of(1.0e-200) };
        }
        acc.count("extreme_ratio_cases");
    }
    // a quotient q_i / p_i that is SUBNORMAL but not zero (p, q themselves ordinary normal numbers): its logarithm is
    // finite, so the divergence is finite - inaccurate (F9), but never infinite
    if nan_mode >= 3 && rng.chance(0.05) {
        let i = rng.below(n);
        if F::IS32 {
            pf[i] = F::of(10f64.powf(18.0 + rng.unit() * 3.0));
            qf[i] = F::of(10f64.powf(-22.0 - rng.unit() * 2.0));
        } else {
            pf[i] = F::of(10f64.powf(100.0 + rng.unit() * 3.0));
            qf[i] = F::of(10f64.powf(-210.0 - rng.unit() * 8.0));
        }
        acc.count("subnormal_quotient_cases");
    }
    let (lp, lq) = (rlay(rng, nd), rlay(rng, nd));
    let ep = Embedded::new(&shape, &pf, lp.clone());
    let eq = Embedded::new(&shape, &qf, lq.clone());
    let (vp, vq) = (ep.view(), eq.view());
    let meta = format!(",\"shape\":{:?},\"lay\":\"{}/{}\",\"normalised\":{}", shape, lp.class(), lq.class(), normalise);
    acc.count(&format!("layout_pair_{}_{}", lp.class(), lq.class()));
    acc.count(&format!("nan_mode_{}", nan_mode.min(3)));
    if rng.chance(0.06) && n >= 2 {
        // p and q are views of one buffer starting at the same element (prefix vs every other element)
        let base: Array1<F> = (0..2 * n).map(|i| pf[i % n]).collect();
        let pa = base.slice(ndarray::s![..n]);
        let qa = base.slice(ndarray::s![..2 * n;2]);
        let (pv, qv): (Vec<F>, Vec<F>) = (pa.to_vec(), qa.to_vec());
        let m2 = format!(",\"shape\":[{}],\"lay\":\"aliased prefix / stepped\",\"normalised\":false", n);
        let rk = catch(|| pa.kl_divergence(&qa));
        rec(acc, "kl_divergence", F::TY, format!("{},\"p\":{},\"q\":{},\"r\":{}", m2, hexes(&pv), hexes(&qv), res_json(&rk)));
        let rc = catch(|| pa.cross_entropy(&qa));
        rec(acc, "cross_entropy", F::TY, format!("{},\"p\":{},\"q\":{},\"r\":{}", m2, hexes(&pv), hexes(&qv), res_json(&rc)));
        acc.count("aliased_operand_pairs");
    }
    let rh = catch(|| vp.entropy());
    rec(acc, "entropy", F::TY, format!("{},\"p\":{},\"r\":{}", meta, hexes(&pf), res_json(&rh)));
    // q as an owned array half of the time (different storage type than p)
    let (rc, rk) = if rng.chance(0.5) {
        let qo = Embedded::new(&shape, &qf, lq.clone()).into_owned_sliced();
        (catch(|| vp.cross_entropy(&qo)), catch(|| vp.kl_divergence(&qo)))
    } else {
        (catch(|| vp.cross_entropy(&vq)), catch(|| vp.kl_divergence(&vq)))
    };
    rec(acc, "cross_entropy", F::TY, format!("{},\"p\":{},\"q\":{},\"r\":{}", meta, hexes(&pf), hexes(&qf), res_json(&rc)));
    rec(acc, "kl_divergence", F::TY, format!("{},\"p\":{},\"q\":{},\"r\":{}", meta, hexes(&pf), hexes(&qf), res_json(&rk)));
    // identities on the returned values
    let rkk = catch(|| vp.kl_divergence(&vp));
    rec(acc, "kl_self", F::TY, format!("{},\"p\":{},\"r\":{}", meta, hexes(&pf), res_json(&rkk)));
    rec(acc, "entropy_identity", F::TY, format!("{},\"p\":{},\"q\":{},\"h\":{},\"hpq\":{},\"kl\":{}", meta, hexes(&pf), hexes(&qf), res_json(&rh), res_json(&rc), res_json(&rk)));
    if n >= 2 {
        acc.nontrivial(h64(&(F::TY, &shape, &lp, &lq, pf.iter().map(|x| x.bits()).collect::<Vec<_>>(), qf.iter().map(|x| x.bits()).collect::<Vec<_>>())));
    }
    acc.sample(|| J::obj(vec![("ty", J::s(F::TY)), ("shape", J::us(&shape)), ("p_layout", lp.to_json()), ("q_layout", lq.to_json()), ("p_head", J::A(pf.iter().take(5).map(|x| J::s(x.show())).collect())), ("q_head", J::A(qf.iter().take(5).map(|x| J::s(x.show())).collect()))]));
}

fn main() {
    let args = Args::parse();
    let prop = args.prop.clone();
    let logpath = args.rest.iter().position(|a| a == "--log").and_then(|i| args.rest.get(i + 1).cloned());
    if let Some(p) = &logpath {
        open_event_log(p);
    }
    let r = Runner::new(args);
    let fin = |_: ()| flush_thread_log();
    if prop == "C06" {
        r.section("means_float", r.args.n(2_500, 150_000), |k, rng, acc| {
            if k % 3 == 0 {
                summary_case::<f32>(rng, acc, "C06")
            } else {
                summary_case::<f64>(rng, acc, "C06")
            }
            fin(());
        });
        r.section("means_int", r.args.n(6_000, 400_000), |k, rng, acc| {
            if k % 2 == 0 {
                int_means_i32(rng, acc)
            } else {
                int_means_i64(rng, acc)
            }
        });
    }
    if prop == "C07" {
        r.section("var_moments", r.args.n(2_500, 150_000), |k, rng, acc| {
            if k % 3 == 0 {
                summary_case::<f32>(rng, acc, "C07")
            } else {
                summary_case::<f64>(rng, acc, "C07")
            }
            fin(());
        });
    }
    if prop == "C08" {
        r.section("cov_pearson", r.args.n(3_000, 150_000), |k, rng, acc| {
            if k % 3 == 0 {
                cov_case::<f32>(rng, acc)
            } else {
                cov_case::<f64>(rng, acc)
            }
            fin(());
        });
    }
    if prop == "C09" {
        r.section("dev_float", r.args.n(3_000, 200_000), |k, rng, acc| {
            if k % 3 == 0 {
                dev_float_case::<f32>(rng, acc)
            } else {
                dev_float_case::<f64>(rng, acc)
            }
            fin(());
        });
        r.section("dev_int", r.args.n(30_000, 2_000_000), |k, rng, acc| match k % 6 {
            0 => dev_i8(rng, acc),
            1 => dev_i16(rng, acc),
            2 => dev_i32(rng, acc),
            3 => dev_i64(rng, acc),
            4 => dev_i128(rng, acc),
            _ => dev_bigint(rng, acc),
        });
    }
    if prop == "C10" {
        r.section("entropy", r.args.n(5_000, 250_000), |k, rng, acc| {
            if k % 3 == 0 {
                entropy_case::<f32>(rng, acc)
            } else {
                entropy_case::<f64>(rng, acc)
            }
            fin(());
        });
    }
    if prop == "C18" {
        r.section("moments_bulk", r.args.n(8_000, 400_000), |k, rng, acc| {
            if k % 3 == 0 {
                c18_num_case::<f32>(rng, acc)
            } else {
                c18_num_case::<f64>(rng, acc)
            }
        });
        // axis == whole-array-on-lane for the four per-axis weighted routines (logged, judged offline)
        r.section("axis_vs_lane", r.args.n(1_200, 60_000), |k, rng, acc| {
            let which = if k % 2 == 0 { "C06" } else { "C07" };
            if k % 3 == 0 {
                summary_case::<f32>(rng, acc, which)
            } else {
                summary_case::<f64>(rng, acc, which)
            }
            fin(());
        });
    }
    close_event_log();
    r.finish("num", vec![("event_log", match logpath { Some(p) => J::s(p), None => J::Null })]);
}
