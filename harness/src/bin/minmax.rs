//! Driver `minmax`: C05  min / max / argmin / argmax designate a true extremum or the right error
#![allow(clippy::all)]
use ndarray::prelude::*;
use ndarray::{Dimension, IntoDimension, IxDyn};
use ndarray_stats::errors::MinMaxError;
use ndarray_stats::QuantileExt;
use noisy_float::types::{n64, N64};
use vharness::*;

trait MElem: Elem + PartialOrd + Copy + std::fmt::Debug + Send + Sync {
    const FLOAT: bool;
    fn is_nan_raw(&self) -> bool;
    fn gen(rng: &mut Rng, class: usize) -> Self;
}
macro_rules! melem_int {
    ($($t:ident),*) => {$(
        impl MElem for $t {
            const FLOAT: bool = false;
            fn is_nan_raw(&self) -> bool { false }
            fn gen(rng: &mut Rng, class: usize) -> Self {
                match class % 4 {
                    0 => rng.range(0, 2) as $t,
                    1 => *rng.pick(&[$t::MIN, $t::MAX, 0 as $t, 1 as $t, $t::MIN + 1, $t::MAX - 1]),
                    2 => rng.range(0, 100) as $t,
                    _ => rng.next() as $t,
                }
            }
        }
    )*};
}
melem_int!(i32, u8, i64);
const F64_ALPHA: [f64; 5] = [f64::NAN, f64::NEG_INFINITY, -0.0, 0.0, 1.0];
impl MElem for f64 {
    const FLOAT: bool = true;
    fn is_nan_raw(&self) -> bool {
        self.to_bits() & 0x7fff_ffff_ffff_ffff > 0x7ff0_0000_0000_0000
    }
    fn gen(rng: &mut Rng, class: usize) -> Self {
        match class % 6 {
            0 => *rng.pick(&[-0.0, 0.0, 1.0, -1.0]),
            1 => *rng.pick(&[f64::INFINITY, f64::NEG_INFINITY, f64::MAX, f64::MIN, f64::MIN_POSITIVE, 5e-324, -5e-324, 0.0, -0.0]),
            2 => rng.range(-3, 3) as f64,
            3 => rng.normal(),
            4 => rng.range(0, 2) as f64,
            _ => rng.normal() * 1e300,
        }
    }
}
impl MElem for f32 {
    const FLOAT: bool = true;
    fn is_nan_raw(&self) -> bool {
        self.to_bits() & 0x7fff_ffff > 0x7f80_0000
    }
    fn gen(rng: &mut Rng, class: usize) -> Self {
        match class % 4 {
            0 => *rng.pick(&[-0.0f32, 0.0, 1.0, -1.0]),
            1 => *rng.pick(&[f32::INFINITY, f32::NEG_INFINITY, f32::MAX, f32::MIN, 1e-45]),
            2 => rng.range(-3, 3) as f32,
            _ => rng.normal() as f32,
        }
    }
}
impl MElem for N64 {
    const FLOAT: bool = false; // cannot hold NaN
    fn is_nan_raw(&self) -> bool {
        false
    }
    fn gen(rng: &mut Rng, class: usize) -> Self {
        let mut x = <f64 as MElem>::gen(rng, class);
        if x.is_nan() {
            x = 0.0;
        }
        n64(x)
    }
}

fn nan_with_payload_f64(i: usize) -> f64 {
    let quiet = if i % 3 == 2 { 0 } else { 0x0008_0000_0000_0000u64 };
    f64::from_bits(0x7ff0_0000_0000_0000 | quiet | (i as u64 + 1) | if i % 2 == 1 { 1u64 << 63 } else { 0 })
}

trait NanMaker: MElem {
    fn nan(i: usize) -> Option<Self>;
}
impl NanMaker for f64 {
    fn nan(i: usize) -> Option<Self> {
        Some(nan_with_payload_f64(i))
    }
}
impl NanMaker for f32 {
    fn nan(i: usize) -> Option<Self> {
        Some(f32::from_bits(0x7fc0_0000 | (i as u32 + 1) & 0xffff | if i % 2 == 1 { 1u32 << 31 } else { 0 }))
    }
}
impl NanMaker for i32 {
    fn nan(_: usize) -> Option<Self> {
        None
    }
}
impl NanMaker for u8 {
    fn nan(_: usize) -> Option<Self> {
        None
    }
}
impl NanMaker for i64 {
    fn nan(_: usize) -> Option<Self> {
        None
    }
}
impl NanMaker for N64 {
    fn nan(_: usize) -> Option<Self> {
        None
    }
}

#[derive(Debug, Clone, PartialEq)]
enum Expect {
    Empty,
    Undefined,
    Ok,
}

fn pat<D: Dimension>(p: D::Pattern) -> Vec<usize> {
    p.into_dimension().slice().to_vec()
}

/// judge the four routines on one array view (generic over dimensionality)
fn judge<A: MElem, D: Dimension>(acc: &mut Acc, v: ArrayView<'_, A, D>, shape: &[usize], data: &[A], cj: &dyn Fn(&str, String) -> J) -> bool {
    let n = data.len();
    let expect = if n == 0 {
        Expect::Empty
    } else if data.iter().any(|x| x.is_nan_raw()) {
        Expect::Undefined
    } else {
        Expect::Ok
    };
    let st = row_major_strides(shape);
    let lower_ok = |x: &A| data.iter().all(|y| x <= y);
    let upper_ok = |x: &A| data.iter().all(|y| x >= y);
    let err_ok = |e: &MinMaxError| match expect {
        Expect::Empty => *e == MinMaxError::EmptyInput,
        Expect::Undefined => *e == MinMaxError::UndefinedOrder,
        Expect::Ok => false,
    };
    // value forms
    let mut vals: [Option<A>; 2] = [None, None];
    for (wi, name) in ["min", "max"].iter().enumerate() {
        acc.eval();
        let r = catch(|| if wi == 0 { v.min().map(|x| *x) } else { v.max().map(|x| *x) });
        match r {
            Err(m) => {
                acc.violation("no_panic", None, cj(name, format!("panicked: {}", m)));
                return false;
            }
            Ok(Err(e)) => {
                if !err_ok(&e) {
                    acc.violation("error_kind", None, cj(name, format!("returned Err({:?}), expected {:?}", e, expect)));
                    return false;
                }
            }
            Ok(Ok(x)) => {
                if expect != Expect::Ok {
                    acc.violation("error_kind", None, cj(name, format!("returned Ok({}), expected {:?}", x.show(), expect)));
                    return false;
                }
                if !(if wi == 0 { lower_ok(&x) } else { upper_ok(&x) }) {
                    acc.violation("extremum", None, cj(name, format!("returned {} which is not {} every element", x.show(), if wi == 0 { "<=" } else { ">=" })));
                    return false;
                }
                if !data.iter().any(|y| y.bits() == x.bits()) {
                    acc.violation("extremum", None, cj(name, format!("returned {} which is not an element of the array", x.show())));
                    return false;
                }
                vals[wi] = Some(x);
            }
        }
    }
    for (wi, name) in ["argmin", "argmax"].iter().enumerate() {
        acc.eval();
        let r = catch(|| if wi == 0 { v.argmin().map(pat::<D>) } else { v.argmax().map(pat::<D>) });
        match r {
            Err(m) => {
                acc.violation("no_panic", None, cj(name, format!("panicked: {}", m)));
                return false;
            }
            Ok(Err(e)) => {
                if !err_ok(&e) {
                    acc.violation("error_kind", None, cj(name, format!("returned Err({:?}), expected {:?}", e, expect)));
                    return false;
                }
            }
            Ok(Ok(idx)) => {
                if expect != Expect::Ok {
                    acc.violation("error_kind", None, cj(name, format!("returned Ok({:?}), expected {:?}", idx, expect)));
                    return false;
                }
                if idx.len() != shape.len() || idx.iter().zip(shape).any(|(i, s)| i >= s) {
                    acc.violation("index_bounds", None, cj(name, format!("returned index {:?} outside shape {:?}", idx, shape)));
                    return false;
                }
                let flat: usize = idx.iter().zip(&st).map(|(i, s)| i * s).sum();
                let x = data[flat];
                if !(if wi == 0 { lower_ok(&x) } else { upper_ok(&x) }) {
                    acc.violation("extremum", None, cj(name, format!("index {:?} designates {} which is not an extremum", idx, x.show())));
                    return false;
                }
                if let Some(vv) = vals[wi] {
                    if !(vv == x) {
                        acc.violation("arg_vs_value", None, cj(name, format!("element at the returned index {:?} is {}, the value form returned {}", idx, x.show(), vv.show())));
                        return false;
                    }
                }
            }
        }
    }
    true
}

fn run_case<A: MElem + NanMaker>(acc: &mut Acc, shape: &[usize], data: &[A], lay: &Layout, mode: usize) -> bool {
    let e = Embedded::new(shape, data, lay.clone());
    let cjb = |op: &str, what: String| {
        J::obj(vec![
            ("op", J::s(op)),
            ("elem", J::s(A::NAME)),
            ("shape", J::us(shape)),
            ("layout", lay.to_json()),
            ("dim_mode", J::s(["IxDyn", "static", "owned-sliced"][mode % 3])),
            ("data", J::A(data.iter().take(64).map(|x| J::s(x.show())).collect())),
            ("what", J::s(what)),
        ])
    };
    let nd = shape.len();
    match (mode % 3, nd) {
        (1, 0) => judge::<A, Ix0>(acc, e.view().into_dimensionality::<Ix0>().unwrap(), shape, data, &cjb),
        (1, 1) => judge::<A, Ix1>(acc, e.view().into_dimensionality::<Ix1>().unwrap(), shape, data, &cjb),
        (1, 2) => judge::<A, Ix2>(acc, e.view().into_dimensionality::<Ix2>().unwrap(), shape, data, &cjb),
        (1, 3) => judge::<A, Ix3>(acc, e.view().into_dimensionality::<Ix3>().unwrap(), shape, data, &cjb),
        (1, 4) => judge::<A, Ix4>(acc, e.view().into_dimensionality::<Ix4>().unwrap(), shape, data, &cjb),
        (2, _) => {
            let owned = Embedded::new(shape, data, lay.clone()).into_owned_sliced();
            judge::<A, IxDyn>(acc, owned.view(), shape, data, &cjb)
        }
        _ => judge::<A, IxDyn>(acc, e.view(), shape, data, &cjb),
    }
}

fn gen_shape(rng: &mut Rng) -> Vec<usize> {
    let nd = rng.below(5);
    let zero = rng.chance(0.12);
    let mut s: Vec<usize> = (0..nd).map(|_| 1 + rng.below(if nd >= 3 { 3 } else { 7 })).collect();
    if zero && nd > 0 {
        let a = rng.below(nd);
        s[a] = 0;
    }
    s
}

fn c05_case<A: MElem + NanMaker>(rng: &mut Rng, acc: &mut Acc) {
    let shape = gen_shape(rng);
    let n: usize = shape.iter().product();
    let class = rng.below(8);
    let mut data: Vec<A> = (0..n).map(|_| A::gen(rng, class)).collect();
    let mut nan_kind = "none";
    if n > 0 && A::nan(0).is_some() {
        match rng.below(8) {
            0 => {
                data[0] = A::nan(0).unwrap();
                nan_kind = "first";
            }
            1 => {
                data[n - 1] = A::nan(1).unwrap();
                nan_kind = "last";
            }
            2 => {
                data[n / 2] = A::nan(2).unwrap();
                nan_kind = "middle";
            }
            3 => {
                for i in 0..n {
                    if rng.chance(0.3) {
                        data[i] = A::nan(i).unwrap();
                        nan_kind = "several";
                    }
                }
            }
            4 => {
                for i in 0..n {
                    data[i] = A::nan(i).unwrap();
                }
                nan_kind = "all";
            }
            _ => {}
        }
    }
    let lay = if rng.chance(0.15) { Layout::canonical(shape.len()) } else { Layout::random(shape.len(), rng) };
    let mode = rng.below(3);
    run_case::<A>(acc, &shape, &data, &lay, mode);
    acc.count(&format!("elem_{}", A::NAME));
    acc.count(&format!("ndim_{}", shape.len()));
    acc.count(&format!("nan_{}", nan_kind));
    acc.count(&format!("layout_{}", lay.class()));
    if n == 0 {
        acc.count("empty_arrays");
    }
    if n >= 2 {
        acc.nontrivial(h64(&(A::NAME, &shape, &lay, mode, data.iter().map(|x| x.bits()).collect::<Vec<_>>())));
    }
    acc.sample(|| J::obj(vec![("elem", J::s(A::NAME)), ("shape", J::us(&shape)), ("layout", lay.to_json()), ("data", J::A(data.iter().take(16).map(|x| J::s(x.show())).collect()))]));
}

fn main() {
    let args = Args::parse();
    let prop = args.prop.clone();
    let thorough = args.thorough();
    let r = Runner::new(args);
    if prop == "C05" {
        // exhaustive 1-D over the alphabet {NaN, -inf, -0, +0, 1}, n <= 6 (7 thorough), 3 layouts
        let maxn = if thorough { 7 } else { 6 };
        let mut offsets = vec![0u64];
        for l in 0..=maxn {
            offsets.push(offsets[l] + 5u64.pow(l as u32));
        }
        r.section("f64_alphabet_exh", *offsets.last().unwrap(), |k, _rng, acc| {
            let l = (0..=maxn).find(|&l| k < offsets[l + 1]).unwrap();
            let mut kk = k - offsets[l];
            let mut data = vec![];
            for i in 0..l {
                let c = (kk % 5) as usize;
                kk /= 5;
                data.push(if c == 0 { nan_with_payload_f64(i) } else { F64_ALPHA[c] });
            }
            let lays = [Layout::canonical(1), Layout { perm: vec![0], step: vec![-2], pad_b: vec![1], pad_a: vec![1] }, Layout { perm: vec![0], step: vec![3], pad_b: vec![0], pad_a: vec![2] }];
            for (i, lay) in lays.iter().enumerate() {
                run_case::<f64>(acc, &[l], &data, lay, i);
            }
            if l >= 2 {
                acc.exact_nontrivial += 3;
            }
            if k % 1999 == 0 {
                acc.sample(|| J::obj(vec![("elem", J::s("f64")), ("data", J::A(data.iter().map(|x| J::s(x.show())).collect())), ("layouts", J::s("contiguous, reversed step 2 with offset, step 3"))]));
            }
        });
        r.section("random", r.args.n(40_000, 2_500_000), |k, rng, acc| match k % 6 {
            0 => c05_case::<i32>(rng, acc),
            1 => c05_case::<u8>(rng, acc),
            2 => c05_case::<i64>(rng, acc),
            3 => c05_case::<f32>(rng, acc),
            4 => c05_case::<f64>(rng, acc),
            _ => c05_case::<N64>(rng, acc),
        });
    }
    r.finish("minmax", vec![]);
}
