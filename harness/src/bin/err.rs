//! Driver `err`: C17  every fallible routine reports exactly the documented error.
//! The decision table is written from the property statement (and the API docs), not from the code.
#![allow(clippy::all)]
use ndarray::prelude::*;
use ndarray::IxDyn;
use ndarray_stats::errors::{EmptyInput, MinMaxError, MultiInputError, QuantileError};
use ndarray_stats::histogram::errors::BinsBuildError;
use ndarray_stats::histogram::strategies::{Auto, BinsBuildingStrategy, FreedmanDiaconis, Rice, Sqrt, Sturges};
use ndarray_stats::histogram::GridBuilder;
use ndarray_stats::interpolate::{Linear, Lower, Midpoint, Nearest};
use ndarray_stats::{CorrelationExt, DeviationExt, EntropyExt, Quantile1dExt, QuantileExt, SummaryStatisticsExt};
use noisy_float::types::{n64, N64};
use vharness::*;

#[derive(Clone, Debug, PartialEq)]
enum Exp {
    Ok,
    Empty,
    Mismatch(Vec<usize>, Vec<usize>),
    InvalidQ(f64),
    /// the statement does not decide this combination: observed and counted, never judged
    Free,
}
#[derive(Clone, Debug, PartialEq)]
enum Obs {
    Ok,
    Empty,
    Mismatch(Vec<usize>, Vec<usize>),
    InvalidQ(f64),
    Other(String),
    Panic(String),
}

trait ToObs {
    fn obs(&self) -> Obs;
}
impl ToObs for EmptyInput {
    fn obs(&self) -> Obs {
        Obs::Empty
    }
}
impl ToObs for MultiInputError {
    fn obs(&self) -> Obs {
        match self {
            MultiInputError::EmptyInput => Obs::Empty,
            MultiInputError::ShapeMismatch(s) => Obs::Mismatch(s.first_shape.clone(), s.second_shape.clone()),
        }
    }
}
impl ToObs for QuantileError {
    fn obs(&self) -> Obs {
        match self {
            QuantileError::EmptyInput => Obs::Empty,
            QuantileError::InvalidQuantile(q) => Obs::InvalidQ(q.raw()),
        }
    }
}
impl ToObs for MinMaxError {
    fn obs(&self) -> Obs {
        match self {
            MinMaxError::EmptyInput => Obs::Empty,
            MinMaxError::UndefinedOrder => Obs::Other("UndefinedOrder".into()),
        }
    }
}
impl ToObs for BinsBuildError {
    fn obs(&self) -> Obs {
        if self.is_empty_input() {
            Obs::Empty
        } else if self.is_strategy() {
            Obs::Other("Strategy".into())
        } else {
            Obs::Other("other".into())
        }
    }
}

fn observe<T, E: ToObs>(f: impl FnOnce() -> Result<T, E>) -> Obs {
    match catch(f) {
        Ok(Ok(_)) => Obs::Ok,
        Ok(Err(e)) => e.obs(),
        Err(m) => Obs::Panic(m),
    }
}

struct Table<'a> {
    acc: &'a mut Acc,
}
impl<'a> Table<'a> {
    fn cell(&mut self, routine: &str, ty: &str, first: &[usize], second: &str, lay: &str, exp: Exp, obs: Obs) {
        self.acc.eval();
        self.acc.exact_nontrivial += 1;
        self.acc.count(&format!("routine_{}", routine));
        let detail = || {
            J::obj(vec![
                ("routine", J::s(routine)),
                ("elem", J::s(ty)),
                ("first_shape", J::us(first)),
                ("second_argument", J::s(second)),
                ("layout", J::s(lay)),
                ("expected", J::s(format!("{:?}", exp))),
                ("observed", J::s(format!("{:?}", obs))),
            ])
        };
        match (&exp, &obs) {
            (Exp::Free, Obs::Panic(_)) => {
                self.acc.count("unconstrained_cells_panicking");
            }
            (Exp::Free, _) => {
                self.acc.count("unconstrained_cells");
            }
            (Exp::Ok, Obs::Ok) | (Exp::Empty, Obs::Empty) => {}
            (Exp::Mismatch(a, b), Obs::Mismatch(c, d)) if a == c && b == d => {}
            (Exp::InvalidQ(q), Obs::InvalidQ(r)) if q.to_bits() == r.to_bits() => {}
            _ => {
                // known finding F8: cov on a (0, m>0) array returns Ok instead of EmptyInput (pinned by a repository test)
                let f8 = routine == "cov" && first.len() == 2 && first[0] == 0 && first[1] > 0 && exp == Exp::Empty && obs == Obs::Ok;
                self.acc.violation(if matches!(obs, Obs::Panic(_)) { "no_panic" } else { "decision_table" }, if f8 { Some("F8") } else { None }, detail());
            }
        }
        if self.acc.samples.len() < 6 && self.acc.evals % 977 == 1 {
            let d = detail();
            self.acc.sample(|| d);
        }
    }
}

fn fill_f64(shape: &[usize], lay_idx: usize, seed: f64) -> (Embedded<f64>, String) {
    let n: usize = shape.iter().product();
    let data: Vec<f64> = (0..n).map(|i| 0.5 + seed + i as f64 * 0.25).collect();
    let lay = Layout::family(shape.len(), lay_idx);
    let cls = lay.class();
    (Embedded::new(shape, &data, lay), cls)
}

fn fill_f64_lay(shape: &[usize], lay: Layout, seed: f64) -> (Embedded<f64>, String) {
    let n: usize = shape.iter().product();
    let data: Vec<f64> = (0..n).map(|i| 0.5 + seed + i as f64 * 0.25).collect();
    let cls = lay.class();
    (Embedded::new(shape, &data, lay), cls)
}

fn is_empty(shape: &[usize]) -> bool {
    shape.iter().product::<usize>() == 0
}

/// second-argument shapes for a first shape: (label, shape, same_rank)
fn second_shapes(first: &[usize]) -> Vec<(String, Vec<usize>)> {
    let mut v = vec![("same shape".to_string(), first.to_vec())];
    let n: usize = first.iter().product();
    if first.len() >= 2 {
        let mut t = first.to_vec();
        t.reverse();
        if t != first {
            v.push(("same element count, other shape".into(), t));
        }
        let mut b = first.to_vec();
        b[0] = 1;
        if b != first {
            v.push(("broadcast-compatible".into(), b));
        }
        let mut g = first.to_vec();
        g[first.len() - 1] += 1;
        v.push(("one axis longer".into(), g));
    } else if first.len() == 1 {
        v.push(("longer".into(), vec![first[0] + 1]));
        if first[0] > 0 {
            v.push(("length 1 (broadcast-compatible)".into(), vec![1]));
        }
    }
    // different rank (only possible with dynamic dimensionality), same element count
    if n > 0 || first.len() > 1 {
        v.push(("different rank, same element count".into(), vec![n]));
    }
    // different rank where one shape is a prefix of the other: a trailing unit axis appended (same element
    // count), the last axis dropped
    {
        let mut t = first.to_vec();
        t.push(1);
        v.push(("other rank: trailing unit axis appended".into(), t));
        if first.len() >= 2 {
            v.push(("other rank: last axis dropped".into(), first[..first.len() - 1].to_vec()));
        }
    }
    v.dedup();
    v
}

fn main() {
    let args = Args::parse();
    let prop = args.prop.clone();
    let thorough = args.thorough();
    let r = Runner::new(args);
    if prop == "C17" {
        // the rank-0 shape [] (one element, dynamic dimensionality) is a non-empty input like any other
        let mut firsts: Vec<Vec<usize>> = vec![vec![4], vec![2, 3], vec![3, 1, 2], vec![1], vec![], vec![0], vec![0, 3], vec![3, 0], vec![0, 0], vec![2, 0, 3]];
        if thorough {
            firsts.extend(vec![vec![7], vec![1, 1], vec![5, 2], vec![2, 2, 2, 2], vec![0, 1], vec![1, 0], vec![0, 2, 0], vec![2, 3, 0], vec![1, 2, 0, 2]]);
        }
        let nlay = if thorough { 8 } else { 4 };
        // one work item per (first shape, layout)
        r.section("table", (firsts.len() * nlay) as u64, |k, _rng, acc| {
            let first = &firsts[k as usize / nlay];
            let li = [0usize, 1, 4, 6, 2, 3, 5, 7][k as usize % nlay];
            let mut t = Table { acc };
            let empty = is_empty(first);
            let (e, lc) = fill_f64(first, li, 0.0);
            let v = e.view();
            let e32d: Vec<f32> = e.logical_now().iter().map(|&x| x as f32).collect();
            let e32 = Embedded::new(first, &e32d, Layout::family(first.len(), li));
            let v32 = e32.view();
            let exp_empty = if empty { Exp::Empty } else { Exp::Ok };
            // ---------------- single-input summary statistics + entropy (f64 and f32)
            t.cell("mean", "f64", first, "-", &lc, exp_empty.clone(), observe(|| SummaryStatisticsExt::mean(&v)));
            t.cell("harmonic_mean", "f64", first, "-", &lc, exp_empty.clone(), observe(|| v.harmonic_mean()));
            t.cell("geometric_mean", "f64", first, "-", &lc, exp_empty.clone(), observe(|| v.geometric_mean()));
            t.cell("kurtosis", "f64", first, "-", &lc, exp_empty.clone(), observe(|| v.kurtosis()));
            t.cell("skewness", "f64", first, "-", &lc, exp_empty.clone(), observe(|| v.skewness()));
            for p in [0u16, 1, 2, 5] {
                t.cell("central_moment", "f64", first, &format!("order {}", p), &lc, exp_empty.clone(), observe(|| v.central_moment(p)));
                t.cell("central_moments", "f64", first, &format!("order {}", p), &lc, exp_empty.clone(), observe(|| v.central_moments(p)));
                t.cell("central_moment", "f32", first, &format!("order {}", p), &lc, exp_empty.clone(), observe(|| v32.central_moment(p)));
            }
            t.cell("entropy", "f64", first, "-", &lc, exp_empty.clone(), observe(|| v.entropy()));
            t.cell("mean", "f32", first, "-", &lc, exp_empty.clone(), observe(|| SummaryStatisticsExt::mean(&v32)));
            t.cell("entropy", "f32", first, "-", &lc, exp_empty.clone(), observe(|| v32.entropy()));
            {
                let di: Vec<i32> = (0..e.pos.len() as i32).collect();
                let ei = Embedded::new(first, &di, Layout::family(first.len(), li));
                t.cell("mean", "i32", first, "-", &lc, exp_empty.clone(), observe(|| SummaryStatisticsExt::mean(&ei.view())));
                // min / max family on integers and floats
                t.cell("min", "i32", first, "-", &lc, exp_empty.clone(), observe(|| ei.view().min().map(|x| *x)));
                t.cell("argmax", "i32", first, "-", &lc, exp_empty.clone(), observe(|| ei.view().argmax().map(|_| ())));
            }
            t.cell("min", "f64", first, "-", &lc, exp_empty.clone(), observe(|| v.min().map(|x| *x)));
            t.cell("max", "f64", first, "-", &lc, exp_empty.clone(), observe(|| v.max().map(|x| *x)));
            t.cell("argmin", "f64", first, "-", &lc, exp_empty.clone(), observe(|| v.argmin().map(|_| ())));
            t.cell("argmax", "f64", first, "-", &lc, exp_empty.clone(), observe(|| v.argmax().map(|_| ())));
            // ---------------- two-input routines: every second shape x second layout
            for (label, second) in second_shapes(first) {
                let mut l2s: Vec<Layout> = vec![Layout::family(second.len(), li), Layout::family(second.len(), (li + 3) % 8)];
                // a second operand of another shape whose STRIDES equal those of the first (both are windows of parents
                // with the same row pitch): only the shapes tell them apart
                if li == 0 && second.len() == first.len() && first.len() >= 2 && second[second.len() - 1] < first[first.len() - 1] {
                    let mut l = Layout::canonical(second.len());
                    l.pad_a[second.len() - 1] = first[first.len() - 1] - second[second.len() - 1];
                    l2s.push(l);
                }
                for l2lay in l2s {
                    let l2 = if l2lay == Layout::family(second.len(), li) { li } else { (li + 3) % 8 };
                    let (e2, lc2) = fill_f64_lay(&second, l2lay.clone(), 0.125);
                    let w = e2.view();
                    let v = v.view(); // reborrow with the shorter lifetime of `e2` (`weights: &Self`)
                    let same = second == *first;
                    let lays = format!("{}/{}", lc, lc2);
                    let exp2 = if empty {
                        Exp::Empty
                    } else if same {
                        Exp::Ok
                    } else {
                        Exp::Mismatch(first.clone(), second.clone())
                    };
                    // sum-type routine: empty + same shape -> Ok(zero); empty + mismatch: unconstrained
                    let exp_sum = if same {
                        Exp::Ok
                    } else if empty {
                        Exp::Free
                    } else {
                        Exp::Mismatch(first.clone(), second.clone())
                    };
                    let ws = catch(|| v.weighted_sum(&w));
                    t.cell("weighted_sum", "f64", first, &label, &lays, exp_sum.clone(), match &ws {
                        Ok(Ok(_)) => Obs::Ok,
                        Ok(Err(e)) => e.obs(),
                        Err(m) => Obs::Panic(m.clone()),
                    });
                    if empty && same {
                        if let Ok(Ok(z)) = ws {
                            t.acc.eval();
                            if z != 0.0 {
                                t.acc.violation("sum_of_empty", None, J::obj(vec![("routine", J::s("weighted_sum")), ("first_shape", J::us(first)), ("what", J::s(format!("weighted_sum of an empty array = {}", z)))]));
                            }
                        }
                    }
                    t.cell("weighted_mean", "f64", first, &label, &lays, exp2.clone(), observe(|| v.weighted_mean(&w)));
                    t.cell("weighted_var", "f64", first, &label, &lays, exp2.clone(), observe(|| v.weighted_var(&w, 0.0)));
                    t.cell("weighted_std", "f64", first, &label, &lays, exp2.clone(), observe(|| v.weighted_std(&w, 1.0)));
                    // deviations (other may have a different storage type: owned)
                    let wo = Embedded::new(&second, &e2.logical_now(), Layout::family(second.len(), l2)).into_owned_sliced();
                    t.cell("count_eq", "f64", first, &label, &lays, exp2.clone(), observe(|| v.count_eq(&w)));
                    t.cell("count_neq", "f64", first, &label, &lays, exp2.clone(), observe(|| v.count_neq(&wo)));
                    t.cell("sq_l2_dist", "f64", first, &label, &lays, exp2.clone(), observe(|| v.sq_l2_dist(&w)));
                    t.cell("l2_dist", "f64", first, &label, &lays, exp2.clone(), observe(|| v.l2_dist(&wo)));
                    t.cell("l1_dist", "f64", first, &label, &lays, exp2.clone(), observe(|| v.l1_dist(&w)));
                    t.cell("linf_dist", "f64", first, &label, &lays, exp2.clone(), observe(|| v.linf_dist(&wo)));
                    t.cell("mean_abs_err", "f64", first, &label, &lays, exp2.clone(), observe(|| v.mean_abs_err(&w)));
                    t.cell("mean_sq_err", "f64", first, &label, &lays, exp2.clone(), observe(|| v.mean_sq_err(&wo)));
                    t.cell("root_mean_sq_err", "f64", first, &label, &lays, exp2.clone(), observe(|| v.root_mean_sq_err(&w)));
                    t.cell("peak_signal_to_noise_ratio", "f64", first, &label, &lays, exp2.clone(), observe(|| v.peak_signal_to_noise_ratio(&wo, 10.0)));
                    // integer deviations
                    {
                        let n1: usize = first.iter().product();
                        let n2: usize = second.iter().product();
                        let a = Array::from_shape_vec(IxDyn(first), (0..n1 as i64).collect::<Vec<i64>>()).unwrap();
                        let b = Array::from_shape_vec(IxDyn(&second), (0..n2 as i64).map(|x| x * 2).collect::<Vec<i64>>()).unwrap();
                        t.cell("sq_l2_dist", "i64", first, &label, "C/C", exp2.clone(), observe(|| a.sq_l2_dist(&b)));
                        t.cell("linf_dist", "i64", first, &label, "C/C", exp2.clone(), observe(|| a.linf_dist(&b)));
                        t.cell("count_eq", "i64", first, &label, "C/C", exp2.clone(), observe(|| a.count_eq(&b)));
                        t.cell("weighted_sum", "i64", first, &label, "C/C", exp_sum.clone(), observe(|| a.weighted_sum(&b)));
                        t.cell("weighted_mean", "i64", first, &label, "C/C", if !empty && same && n1 > 0 && b.sum() == 0 { Exp::Free } else { exp2.clone() }, observe(|| a.weighted_mean(&b)));
                    }
                    // entropy family
                    t.cell("kl_divergence", "f64", first, &label, &lays, exp2.clone(), observe(|| v.kl_divergence(&w)));
                    t.cell("cross_entropy", "f64", first, &label, &lays, exp2.clone(), observe(|| v.cross_entropy(&wo)));
                }
            }
            // ---------------- weights whose VALUES are degenerate (all zero; cancelling signs with zero total): the
            // error type is about shapes and emptiness only, so a non-empty input still answers Ok (whatever the
            // number) and an empty one EmptyInput
            for (wlabel, wf) in [("weights all zero", 0usize), ("weights +1/-1 with zero total", 1), ("weights all one", 2)] {
                let n1: usize = first.iter().product();
                let wd: Vec<f64> = (0..n1)
                    .map(|i| match wf {
                        0 => 0.0,
                        1 => {
                            if n1 % 2 == 1 && i == n1 - 1 {
                                0.0
                            } else if i % 2 == 0 {
                                1.0
                            } else {
                                -1.0
                            }
                        }
                        _ => 1.0,
                    })
                    .collect();
                let e2 = Embedded::new(first, &wd, Layout::family(first.len(), (li + 1) % 8));
                let w = e2.view();
                let v = v.view();
                let ex = if empty { Exp::Empty } else { Exp::Ok };
                t.cell("weighted_sum", "f64", first, wlabel, &lc, Exp::Ok, observe(|| v.weighted_sum(&w)));
                t.cell("weighted_mean", "f64", first, wlabel, &lc, ex.clone(), observe(|| v.weighted_mean(&w)));
                for ddof in [0.0, 1.0] {
                    t.cell("weighted_var", "f64", first, &format!("{} ddof {}", wlabel, ddof), &lc, ex.clone(), observe(|| v.weighted_var(&w, ddof)));
                    t.cell("weighted_std", "f64", first, &format!("{} ddof {}", wlabel, ddof), &lc, ex.clone(), observe(|| v.weighted_std(&w, ddof)));
                }
                for axis in 0..first.len() {
                    let wl = first[axis];
                    let w1d: Vec<f64> = (0..wl)
                        .map(|i| match wf {
                            0 => 0.0,
                            1 => {
                                if wl % 2 == 1 && i == wl - 1 {
                                    0.0
                                } else if i % 2 == 0 {
                                    1.0
                                } else {
                                    -1.0
                                }
                            }
                            _ => 1.0,
                        })
                        .collect();
                    let ew = Embedded::new(&[wl], &w1d, Layout::family(1, 3));
                    let w1 = ew.view().into_dimensionality::<Ix1>().unwrap();
                    let v = v.view();
                    let label = format!("axis {} {}", axis, wlabel);
                    t.cell("weighted_sum_axis", "f64", first, &label, &lc, Exp::Ok, observe(|| v.weighted_sum_axis(Axis(axis), &w1)));
                    t.cell("weighted_mean_axis", "f64", first, &label, &lc, ex.clone(), observe(|| v.weighted_mean_axis(Axis(axis), &w1)));
                    t.cell("weighted_var_axis", "f64", first, &label, &lc, ex.clone(), observe(|| v.weighted_var_axis(Axis(axis), &w1, 0.0)));
                    t.cell("weighted_std_axis", "f64", first, &label, &lc, ex.clone(), observe(|| v.weighted_std_axis(Axis(axis), &w1, 1.0)));
                }
            }
            // ---------------- per-axis weights: right / wrong length, every axis
            for axis in 0..first.len() {
                for wl in [first[axis], first[axis] + 1, if first[axis] > 0 { first[axis] - 1 } else { 2 }, 1] {
                    for wlay in [0usize, 3] {
                        let wd: Vec<f64> = (0..wl).map(|i| 1.0 + i as f64).collect();
                        let ew = Embedded::new(&[wl], &wd, Layout::family(1, wlay));
                        let w1 = ew.view().into_dimensionality::<Ix1>().unwrap();
                        let v = v.view();
                        let right = wl == first[axis];
                        let label = format!("axis {} weights of length {}", axis, wl);
                        let mism = Exp::Mismatch(first.clone(), vec![wl]);
                        // sum-type: Ok whenever the length matches (also for empty inputs); mismatch otherwise
                        let exp_sum = if right { Exp::Ok } else if empty { Exp::Free } else { mism.clone() };
                        let exp_ax = if empty { Exp::Empty } else if right { Exp::Ok } else { mism.clone() };
                        let rs = catch(|| v.weighted_sum_axis(Axis(axis), &w1));
                        t.cell("weighted_sum_axis", "f64", first, &label, &lc, exp_sum, match &rs {
                            Ok(Ok(_)) => Obs::Ok,
                            Ok(Err(e)) => e.obs(),
                            Err(m) => Obs::Panic(m.clone()),
                        });
                        if let Ok(Ok(a)) = &rs {
                            let mut rem = first.clone();
                            rem.remove(axis);
                            t.acc.eval();
                            if a.shape() != &rem[..] || (first[axis] == 0 && a.iter().any(|x| *x != 0.0)) {
                                t.acc.violation("sum_of_empty", None, J::obj(vec![("routine", J::s("weighted_sum_axis")), ("first_shape", J::us(first)), ("axis", J::u(axis)), ("what", J::s(format!("result {:?}", a)))]));
                            }
                        }
                        t.cell("weighted_mean_axis", "f64", first, &label, &lc, exp_ax.clone(), observe(|| v.weighted_mean_axis(Axis(axis), &w1)));
                        t.cell("weighted_var_axis", "f64", first, &label, &lc, exp_ax.clone(), observe(|| v.weighted_var_axis(Axis(axis), &w1, 0.0)));
                        t.cell("weighted_std_axis", "f64", first, &label, &lc, exp_ax.clone(), observe(|| v.weighted_std_axis(Axis(axis), &w1, 0.5)));
                    }
                }
            }
            // ---------------- quantiles: q lists x axes
            let qlists: Vec<(&str, Vec<f64>, Option<f64>)> = vec![
                ("valid", vec![0.0, 0.5, 1.0], None),
                ("single valid", vec![0.25], None),
                ("empty list", vec![], None),
                ("one below 0", vec![0.5, -0.25, 0.75], Some(-0.25)),
                ("one above 1", vec![0.5, 1.0, 1.5], Some(1.5)),
                ("several invalid", vec![0.1, 2.0, -3.0, 7.0], Some(2.0)),
                ("several invalid, negative first", vec![-1e-300, 5.0], Some(-1e-300)),
                ("first invalid", vec![1.0000000000000002, 0.5], Some(1.0000000000000002)),
                ("negative zero is valid", vec![-0.0], None),
                ("infinite", vec![0.5, f64::INFINITY], Some(f64::INFINITY)),
            ];
            for axis in 0..first.len() {
                let alen = first[axis];
                for (qlabel, qs, bad) in &qlists {
                    let exp = match bad {
                        Some(b) => Exp::InvalidQ(*b),
                        None => {
                            if alen == 0 {
                                Exp::Empty
                            } else {
                                Exp::Ok
                            }
                        }
                    };
                    let qa: Array1<N64> = qs.iter().map(|&q| n64(q)).collect();
                    let label = format!("axis {} qs {}", axis, qlabel);
                    let mut em = Embedded::new(first, &e.logical_now(), Layout::family(first.len(), li));
                    let nn: Vec<N64> = e.logical_now().iter().map(|&x| n64(x)).collect();
                    let mut en = Embedded::new(first, &nn, Layout::family(first.len(), li));
                    let di: Vec<i32> = (0..nn.len() as i32).collect();
                    let mut ei = Embedded::new(first, &di, Layout::family(first.len(), li));
                    t.cell("quantiles_axis_mut", "N64", first, &label, &lc, exp.clone(), observe(|| en.view_mut().quantiles_axis_mut(Axis(axis), &qa, &Linear)));
                    t.cell("quantiles_axis_mut", "i32", first, &label, &lc, exp.clone(), observe(|| ei.view_mut().quantiles_axis_mut(Axis(axis), &qa, &Nearest)));
                    // single-q entry points: one cell per q of the list (its own expectation)
                    for &q in qs.iter() {
                        let e1 = if !(q >= 0.0 && q <= 1.0) {
                            Exp::InvalidQ(q)
                        } else if alen == 0 {
                            Exp::Empty
                        } else {
                            Exp::Ok
                        };
                        let l1 = format!("axis {} q {:e}", axis, q);
                        t.cell("quantile_axis_mut", "i32", first, &l1, &lc, e1.clone(), observe(|| ei.view_mut().quantile_axis_mut(Axis(axis), n64(q), &Midpoint)));
                        t.cell("quantile_axis_mut", "N64", first, &l1, &lc, e1.clone(), observe(|| en.view_mut().quantile_axis_mut(Axis(axis), n64(q), &Lower)));
                        t.cell("quantile_axis_skipnan_mut", "f64", first, &l1, &lc, e1.clone(), observe(|| em.view_mut().quantile_axis_skipnan_mut(Axis(axis), n64(q), &Lower)));
                        // the same with every element missing (NaN / None): the request is still validated first
                        {
                            let allnan: Vec<f64> = vec![f64::NAN; e.pos.len()];
                            let mut en2 = Embedded::new(first, &allnan, Layout::family(first.len(), li));
                            t.cell("quantile_axis_skipnan_mut", "f64 (all NaN)", first, &l1, &lc, e1.clone(), observe(|| en2.view_mut().quantile_axis_skipnan_mut(Axis(axis), n64(q), &Midpoint)));
                            let allnone: Vec<Option<i32>> = vec![None; e.pos.len()];
                            let mut eo2 = Embedded::new(first, &allnone, Layout::family(first.len(), li));
                            t.cell("quantile_axis_skipnan_mut", "Option<i32> (all None)", first, &l1, &lc, e1.clone(), observe(|| eo2.view_mut().quantile_axis_skipnan_mut(Axis(axis), n64(q), &Lower)));
                        }
                        if first.len() == 1 {
                            t.cell("quantile_mut", "N64", first, &l1, &lc, e1.clone(), observe(|| en.view_mut().into_dimensionality::<Ix1>().unwrap().quantile_mut(n64(q), &Linear)));
                        }
                    }
                    if first.len() == 1 {
                        t.cell("quantiles_mut", "i32", first, &label, &lc, exp.clone(), observe(|| ei.view_mut().into_dimensionality::<Ix1>().unwrap().quantiles_mut(&qa, &Lower)));
                    }
                }
            }
            // ---------------- correlation (2-D only)
            if first.len() == 2 {
                let v2 = v.clone().into_dimensionality::<Ix2>().unwrap();
                t.cell("pearson_correlation", "f64", first, "-", &lc, if empty { Exp::Empty } else { Exp::Ok }, observe(|| v2.pearson_correlation()));
                // ddof = -1 keeps the documented precondition ddof < observations satisfiable for every shape
                t.cell("cov", "f64", first, "ddof -1", &lc, if empty { Exp::Empty } else { Exp::Ok }, observe(|| v2.cov(-1.0)));
                if first[1] > 0 {
                    t.cell("cov", "f64", first, "ddof 0", &lc, if empty { Exp::Empty } else { Exp::Ok }, observe(|| v2.cov(0.0)));
                } else {
                    // zero observations with ddof >= 0: outside the documented precondition (documented panic)
                    t.cell("cov", "f64", first, "ddof 0 (precondition violated)", &lc, Exp::Free, observe(|| v2.cov(0.0)));
                }
                let v2f = v32.clone().into_dimensionality::<Ix2>().unwrap();
                t.cell("pearson_correlation", "f32", first, "-", &lc, if empty { Exp::Empty } else { Exp::Ok }, observe(|| v2f.pearson_correlation()));
                // GridBuilder: observations x dimensions
                let nn: Vec<N64> = e.logical_now().iter().map(|&x| n64(x)).collect();
                let en = Embedded::new(first, &nn, Layout::family(2, li));
                let vn = en.view().into_dimensionality::<Ix2>().unwrap();
                let gexp = if first[1] == 0 {
                    Exp::Free // no 1-D data set at all: not decided by the statement
                } else if first[0] == 0 {
                    Exp::Empty
                } else if first[0] == 1 {
                    Exp::Free // constant data (Strategy error), decided by C12
                } else {
                    Exp::Ok
                };
                t.cell("GridBuilder<Sqrt>::from_array", "N64", first, "-", &lc, gexp.clone(), observe(|| GridBuilder::<Sqrt<N64>>::from_array(&vn)));
                t.cell("GridBuilder<Auto>::from_array", "N64", first, "-", &lc, gexp.clone(), observe(|| GridBuilder::<Auto<N64>>::from_array(&vn)));
            }
            // ---------------- strategies (1-D only)
            if first.len() == 1 {
                let nn: Vec<N64> = e.logical_now().iter().map(|&x| n64(x)).collect();
                let en = Embedded::new(first, &nn, Layout::family(1, li));
                let vn = en.view().into_dimensionality::<Ix1>().unwrap();
                let sexp = if empty {
                    Exp::Empty
                } else if first[0] == 1 {
                    Exp::Free
                } else {
                    Exp::Ok
                };
                t.cell("Sqrt::from_array", "N64", first, "-", &lc, sexp.clone(), observe(|| Sqrt::from_array(&vn)));
                t.cell("Rice::from_array", "N64", first, "-", &lc, sexp.clone(), observe(|| Rice::from_array(&vn)));
                t.cell("Sturges::from_array", "N64", first, "-", &lc, sexp.clone(), observe(|| Sturges::from_array(&vn)));
                t.cell("FreedmanDiaconis::from_array", "N64", first, "-", &lc, if empty { Exp::Empty } else { Exp::Free }, observe(|| FreedmanDiaconis::from_array(&vn)));
                t.cell("Auto::from_array", "N64", first, "-", &lc, sexp.clone(), observe(|| Auto::from_array(&vn)));
                let di: Vec<i64> = (0..nn.len() as i64).map(|x| x * 100).collect();
                let ei = Embedded::new(first, &di, Layout::family(1, li));
                t.cell("Sqrt::from_array", "i64", first, "-", &lc, sexp.clone(), observe(|| Sqrt::from_array(&ei.view().into_dimensionality::<Ix1>().unwrap())));
            }
        });
    }
    r.finish("err", vec![("exhaustive", J::B(true))]);
}
