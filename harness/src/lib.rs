//! Shared machinery of the runtime-monitoring harness for ndarray-stats:
//! PRNG, tiny JSON writer, panic observation, pivot scripting / enumeration
//! through the `verif-hooks` pivot hook, the layout "zoo" with guard cells,
//! the per-thread evidence accumulator and the parallel case runner.
#![allow(clippy::all)]

use ndarray::prelude::*;
use ndarray::{IxDyn, Slice};
use noisy_float::types::{N32, N64};
use std::cell::{Cell, RefCell};
use std::collections::{BTreeMap, HashSet};
use std::fmt::Write as _;
use std::panic::{catch_unwind, AssertUnwindSafe};
use std::sync::atomic::{AtomicU64, Ordering};
use std::sync::Mutex;

pub mod dy;
pub mod zoo;
pub use zoo::*;

// ---------------------------------------------------------------------------
// PRNG (splitmix64 seeding, xoshiro256**)
// ---------------------------------------------------------------------------
#[derive(Clone, Debug)]
pub struct Rng {
    s: [u64; 4],
}

pub fn splitmix(x: &mut u64) -> u64 {
    *x = x.wrapping_add(0x9E3779B97F4A7C15);
    let mut z = *x;
    z = (z ^ (z >> 30)).wrapping_mul(0xBF58476D1CE4E5B9);
    z = (z ^ (z >> 27)).wrapping_mul(0x94D049BB133111EB);
    z ^ (z >> 31)
}

pub fn mix(a: u64, b: u64) -> u64 {
    let mut x = a ^ b.rotate_left(32) ^ 0xD6E8FEB86659FD93;
    let r = splitmix(&mut x);
    r ^ splitmix(&mut x)
}

pub fn hash_str(s: &str) -> u64 {
    let mut h = 0xcbf29ce484222325u64;
    for b in s.bytes() {
        h ^= b as u64;
        h = h.wrapping_mul(0x100000001b3);
    }
    h
}

impl Rng {
    pub fn new(seed: u64) -> Rng {
        let mut x = seed;
        Rng {
            s: [
                splitmix(&mut x),
                splitmix(&mut x),
                splitmix(&mut x),
                splitmix(&mut x),
            ],
        }
    }
    /// RNG of case `k` of section `section` under global seed `seed`.
    pub fn for_case(seed: u64, section: &str, k: u64) -> Rng {
        Rng::new(mix(mix(seed, hash_str(section)), k))
    }
    pub fn next(&mut self) -> u64 {
        let r = self.s[1].wrapping_mul(5).rotate_left(7).wrapping_mul(9);
        let t = self.s[1] << 17;
        self.s[2] ^= self.s[0];
        self.s[3] ^= self.s[1];
        self.s[1] ^= self.s[2];
        self.s[0] ^= self.s[3];
        self.s[2] ^= t;
        self.s[3] = self.s[3].rotate_left(45);
        r
    }
    /// uniform in 0..n (n > 0)
    pub fn below(&mut self, n: usize) -> usize {
        (((self.next() >> 11) as u128 * n as u128) >> 53) as usize
    }
    /// uniform in lo..=hi
    pub fn range(&mut self, lo: i64, hi: i64) -> i64 {
        lo + self.below((hi - lo + 1) as usize) as i64
    }
    pub fn unit(&mut self) -> f64 {
        (self.next() >> 11) as f64 / (1u64 << 53) as f64
    }
    pub fn chance(&mut self, p: f64) -> bool {
        self.unit() < p
    }
    pub fn pick<'a, T>(&mut self, xs: &'a [T]) -> &'a T {
        &xs[self.below(xs.len())]
    }
    pub fn shuffle<T>(&mut self, xs: &mut [T]) {
        for i in (1..xs.len()).rev() {
            let j = self.below(i + 1);
            xs.swap(i, j);
        }
    }
    /// standard normal (Box-Muller)
    pub fn normal(&mut self) -> f64 {
        let u1 = 1.0 - self.unit();
        let u2 = self.unit();
        (-2.0 * u1.ln()).sqrt() * (2.0 * std::f64::consts::PI * u2).cos()
    }
}

// ---------------------------------------------------------------------------
// Minimal JSON value
// ---------------------------------------------------------------------------
#[derive(Clone, Debug)]
pub enum J {
    Null,
    B(bool),
    I(i128),
    F(f64),
    S(String),
    A(Vec<J>),
    O(Vec<(String, J)>),
}

impl J {
    pub fn s<T: Into<String>>(x: T) -> J {
        J::S(x.into())
    }
    pub fn u(x: usize) -> J {
        J::I(x as i128)
    }
    pub fn arr<T, F: Fn(&T) -> J>(xs: &[T], f: F) -> J {
        J::A(xs.iter().map(f).collect())
    }
    pub fn us(xs: &[usize]) -> J {
        J::A(xs.iter().map(|&x| J::I(x as i128)).collect())
    }
    pub fn is(xs: &[isize]) -> J {
        J::A(xs.iter().map(|&x| J::I(x as i128)).collect())
    }
    pub fn obj(kv: Vec<(&str, J)>) -> J {
        J::O(kv.into_iter().map(|(k, v)| (k.to_string(), v)).collect())
    }
    pub fn render(&self) -> String {
        let mut s = String::new();
        self.write(&mut s);
        s
    }
    fn write(&self, out: &mut String) {
        match self {
            J::Null => out.push_str("null"),
            J::B(b) => out.push_str(if *b { "true" } else { "false" }),
            J::I(i) => {
                let _ = write!(out, "{}", i);
            }
            J::F(f) => {
                if f.is_finite() {
                    let _ = write!(out, "{:e}", f);
                } else {
                    let _ = write!(out, "\"{}\"", f);
                }
            }
            J::S(s) => {
                out.push('"');
                for c in s.chars() {
                    match c {
                        '"' => out.push_str("\\\""),
                        '\\' => out.push_str("\\\\"),
                        '\n' => out.push_str("\\n"),
                        '\t' => out.push_str("\\t"),
                        '\r' => out.push_str("\\r"),
                        c if (c as u32) < 0x20 => {
                            let _ = write!(out, "\\u{:04x}", c as u32);
                        }
                        c => out.push(c),
                    }
                }
                out.push('"');
            }
            J::A(xs) => {
                out.push('[');
                for (i, x) in xs.iter().enumerate() {
                    if i > 0 {
                        out.push(',');
                    }
                    x.write(out);
                }
                out.push(']');
            }
            J::O(kv) => {
                out.push('{');
                for (i, (k, v)) in kv.iter().enumerate() {
                    if i > 0 {
                        out.push(',');
                    }
                    J::S(k.clone()).write(out);
                    out.push(':');
                    v.write(out);
                }
                out.push('}');
            }
        }
    }
}

// ---------------------------------------------------------------------------
// Panic observation
// ---------------------------------------------------------------------------
pub fn silence_panics() {
    std::panic::set_hook(Box::new(|_| {}));
}

/// Runs `f`, turning an unwind into `Err(message)`.
pub fn catch<R>(f: impl FnOnce() -> R) -> Result<R, String> {
    match catch_unwind(AssertUnwindSafe(f)) {
        Ok(r) => Ok(r),
        Err(e) => {
            let msg = if let Some(s) = e.downcast_ref::<&str>() {
                s.to_string()
            } else if let Some(s) = e.downcast_ref::<String>() {
                s.clone()
            } else {
                "<non-string panic payload>".to_string()
            };
            Err(msg)
        }
    }
}

// ---------------------------------------------------------------------------
// Pivot hook: record / script / enumerate
// ---------------------------------------------------------------------------
#[derive(Clone, Debug)]
pub enum Pivots {
    /// keep what `thread_rng` drew
    Natural,
    First,
    Last,
    Mid,
    /// seeded pseudo-random choice (independent of thread_rng)
    Seeded(u64),
    /// scripted prefix, then `then` (0 = first … as for `First`)
    Script(Vec<usize>),
    /// alternate first / last
    Alternate,
}

struct PivState {
    mode: Pivots,
    pos: usize,
    rng: u64,
    log: Vec<(usize, usize)>,
    installed: bool,
}

thread_local! {
    static PIV: RefCell<PivState> = RefCell::new(PivState{mode:Pivots::Natural,pos:0,rng:0,log:Vec::new(),installed:false});
}

fn ensure_hook() {
    let need = PIV.with(|p| !p.borrow().installed);
    if need {
        ndarray_stats::verif_hooks::set_pivot_hook(Some(Box::new(|n, drawn| {
            PIV.with(|p| {
                let mut p = p.borrow_mut();
                let pos = p.pos;
                let c = match &p.mode {
                    Pivots::Natural => drawn,
                    Pivots::First => 0,
                    Pivots::Last => n - 1,
                    Pivots::Mid => n / 2,
                    Pivots::Alternate => {
                        if pos % 2 == 0 {
                            0
                        } else {
                            n - 1
                        }
                    }
                    Pivots::Seeded(_) => {
                        let r = splitmix(&mut p.rng);
                        (r % n as u64) as usize
                    }
                    Pivots::Script(s) => {
                        if pos < s.len() {
                            s[pos].min(n - 1)
                        } else {
                            0
                        }
                    }
                };
                p.pos += 1;
                p.log.push((n, c));
                c
            })
        })));
        PIV.with(|p| p.borrow_mut().installed = true);
    }
}

pub fn set_pivots(mode: Pivots) {
    ensure_hook();
    PIV.with(|p| {
        let mut p = p.borrow_mut();
        if let Pivots::Seeded(s) = &mode {
            p.rng = *s;
        }
        p.mode = mode;
        p.pos = 0;
        p.log.clear();
    });
}

pub fn take_pivot_log() -> Vec<(usize, usize)> {
    PIV.with(|p| std::mem::take(&mut p.borrow_mut().log))
}

/// Runs `f` under the given pivot policy and returns its result with the log
/// of `(n, chosen)` hook calls.
pub fn with_pivots<R>(mode: Pivots, f: impl FnOnce() -> R) -> (R, Vec<(usize, usize)>) {
    set_pivots(mode);
    let r = f();
    let log = take_pivot_log();
    (r, log)
}

/// Enumerates **all** pivot sequences of the computation `run` by stateless
/// depth-first replay: `run` is executed once per sequence (it must be a
/// deterministic function of the pivot choices; it receives nothing and does
/// its own checking; afterwards it is handed the log).  Returns
/// `(number of sequences, harness_ok)`; `harness_ok` is false if a scripted
/// prefix was not consumed entirely (non-determinism in `run`).  `cap` bounds
/// the number of sequences (returns early, third component true if capped).
pub fn enumerate_pivots(
    cap: u64,
    mut run: impl FnMut() -> (),
    mut after: impl FnMut(&[(usize, usize)]),
) -> (u64, bool, bool) {
    let mut prefix: Vec<usize> = Vec::new();
    let mut count = 0u64;
    let mut ok = true;
    loop {
        let plen = prefix.len();
        set_pivots(Pivots::Script(std::mem::take(&mut prefix)));
        run();
        let log = take_pivot_log();
        if log.len() < plen {
            ok = false;
        }
        after(&log);
        count += 1;
        if count >= cap {
            set_pivots(Pivots::Natural);
            return (count, ok, true);
        }
        let mut k = log.len();
        loop {
            if k == 0 {
                set_pivots(Pivots::Natural);
                return (count, ok, false);
            }
            k -= 1;
            if log[k].1 + 1 < log[k].0 {
                prefix = log[..k].iter().map(|x| x.1).collect();
                prefix.push(log[k].1 + 1);
                break;
            }
        }
    }
}

// ---------------------------------------------------------------------------
// Step budget (logical steps, not wall clock) used by instrumented elements
// ---------------------------------------------------------------------------
thread_local! {
    pub static STEPS: Cell<u64> = Cell::new(0);
    pub static STEP_BUDGET: Cell<u64> = Cell::new(u64::MAX);
}
pub const BUDGET_MSG: &str = "VERIF step budget exceeded";

#[inline]
pub fn step() {
    STEPS.with(|s| {
        let v = s.get() + 1;
        s.set(v);
        if v > STEP_BUDGET.with(|b| b.get()) {
            // make sure we do not panic again while unwinding
            STEP_BUDGET.with(|b| b.set(u64::MAX));
            panic!("{}", BUDGET_MSG);
        }
    });
}
pub fn set_budget(b: u64) {
    STEPS.with(|s| s.set(0));
    STEP_BUDGET.with(|x| x.set(b));
}
pub fn steps_used() -> u64 {
    STEPS.with(|s| s.get())
}

// ---------------------------------------------------------------------------
// Element types
// ---------------------------------------------------------------------------
/// Element whose order looks only at `key`; `id` makes every cell unique so
/// multiset monitors see duplication / loss / cross-lane movement among ties.
/// Comparisons are counted against the step budget.
#[derive(Clone, Copy, Debug)]
pub struct Tracked {
    pub key: u8,
    pub id: u16,
}
impl PartialEq for Tracked {
    fn eq(&self, o: &Self) -> bool {
        step();
        self.key == o.key
    }
}
impl Eq for Tracked {}
impl PartialOrd for Tracked {
    fn partial_cmp(&self, o: &Self) -> Option<std::cmp::Ordering> {
        step();
        Some(self.key.cmp(&o.key))
    }
}
impl Ord for Tracked {
    fn cmp(&self, o: &Self) -> std::cmp::Ordering {
        step();
        self.key.cmp(&o.key)
    }
}

// ---------------------------------------------------------------------------
// Element lifecycle monitor: an element type that is neither Copy nor trivially droppable.  Every value carries
// a unique id registered in a thread-local table of live values; `clone` registers a new id, `drop` removes its
// id.  A drop of an id that is not live (an element bitwise-duplicated and dropped twice), a clone or a
// comparison that touches a dead id (use after drop) is recorded as a lifecycle fault.  The element owns no heap
// memory, so observing such a fault is itself free of undefined behaviour.
// ---------------------------------------------------------------------------
thread_local! {
    static LIFE_LIVE: RefCell<std::collections::HashSet<u64>> = RefCell::new(std::collections::HashSet::new());
    static LIFE_NEXT: Cell<u64> = const { Cell::new(1) };
    static LIFE_FAULT: RefCell<Option<String>> = const { RefCell::new(None) };
    static LIFE_EVENTS: Cell<u64> = const { Cell::new(0) };
    /// injected fault: the comparison with this ordinal number (counted from 1 since the last reset) panics
    static LIFE_PANIC_AT: Cell<u64> = const { Cell::new(0) };
    static LIFE_CMPS: Cell<u64> = const { Cell::new(0) };
}
pub const INJECTED_PANIC: &str = "VERIF injected panic in the element's comparison";
fn life_cmp_tick() {
    let n = LIFE_CMPS.with(|c| {
        c.set(c.get() + 1);
        c.get()
    });
    if LIFE_PANIC_AT.with(|p| p.get()) == n {
        panic!("{}", INJECTED_PANIC);
    }
}
/// make the k-th comparison of `Res` values from now on panic (0 = never)
pub fn life_panic_at(k: u64) {
    LIFE_CMPS.with(|c| c.set(0));
    LIFE_PANIC_AT.with(|p| p.set(k));
}
/// comparisons of `Res` values since the last `life_panic_at` / `life_reset`
pub fn life_comparisons() -> u64 {
    LIFE_CMPS.with(|c| c.get())
}
#[derive(Debug)]
pub struct Res {
    pub key: i64,
    id: u64,
}
fn life_fault_set(m: String) {
    LIFE_FAULT.with(|f| {
        let mut f = f.borrow_mut();
        if f.is_none() {
            *f = Some(m);
        }
    });
}
fn life_check(id: u64, key: i64, what: &str) {
    LIFE_EVENTS.with(|e| e.set(e.get() + 1));
    if !LIFE_LIVE.with(|l| l.borrow().contains(&id)) {
        life_fault_set(format!("{} of an element that is not alive (id {}, key {}): it was dropped before", what, id, key));
    }
}
impl Res {
    pub fn new(key: i64) -> Res {
        let id = LIFE_NEXT.with(|n| {
            let v = n.get();
            n.set(v + 1);
            v
        });
        LIFE_LIVE.with(|l| l.borrow_mut().insert(id));
        Res { key, id }
    }
}
impl Clone for Res {
    fn clone(&self) -> Res {
        life_check(self.id, self.key, "clone");
        Res::new(self.key)
    }
}
impl Drop for Res {
    fn drop(&mut self) {
        LIFE_EVENTS.with(|e| e.set(e.get() + 1));
        if !LIFE_LIVE.with(|l| l.borrow_mut().remove(&self.id)) {
            life_fault_set(format!("an element was dropped twice (id {}, key {})", self.id, self.key));
        }
    }
}
impl PartialEq for Res {
    fn eq(&self, o: &Self) -> bool {
        step();
        life_cmp_tick();
        life_check(self.id, self.key, "comparison");
        life_check(o.id, o.key, "comparison");
        self.key == o.key
    }
}
impl Eq for Res {}
impl PartialOrd for Res {
    fn partial_cmp(&self, o: &Self) -> Option<std::cmp::Ordering> {
        Some(self.cmp(o))
    }
}
impl Ord for Res {
    fn cmp(&self, o: &Self) -> std::cmp::Ordering {
        step();
        life_cmp_tick();
        life_check(self.id, self.key, "comparison");
        life_check(o.id, o.key, "comparison");
        self.key.cmp(&o.key)
    }
}
impl Elem for Res {
    fn bits(&self) -> (u8, u128) {
        (0, self.key as u128)
    }
    fn guard(i: usize) -> Self {
        Res::new(-1000 - i as i64)
    }
    fn show(&self) -> String {
        format!("Res({})", self.key)
    }
    const NAME: &'static str = "Res";
}
/// forget everything the monitor knows (start of a case)
pub fn life_reset() {
    LIFE_LIVE.with(|l| l.borrow_mut().clear());
    LIFE_FAULT.with(|f| *f.borrow_mut() = None);
    LIFE_EVENTS.with(|e| e.set(0));
    LIFE_CMPS.with(|c| c.set(0));
    LIFE_PANIC_AT.with(|p| p.set(0));
}
/// first lifecycle fault since the last reset
pub fn life_fault() -> Option<String> {
    LIFE_FAULT.with(|f| f.borrow().clone())
}
/// number of values alive right now, and number of lifecycle events (clone / drop / comparison) observed
pub fn life_stats() -> (usize, u64) {
    (LIFE_LIVE.with(|l| l.borrow().len()), LIFE_EVENTS.with(|e| e.get()))
}

/// Bit-level identity of an element (tag, payload) + guard values + display.
pub trait Elem: Clone + 'static {
    fn bits(&self) -> (u8, u128);
    fn guard(i: usize) -> Self;
    fn show(&self) -> String;
    const NAME: &'static str;
}

macro_rules! elem_int {
    ($($t:ident),*) => {$(
        impl Elem for $t {
            fn bits(&self) -> (u8,u128) { (0, *self as u128) }
            fn guard(i: usize) -> Self { (0x5Au128.wrapping_mul(0x0101010101010101).wrapping_add((i as u128).wrapping_mul(37)) ) as $t }
            fn show(&self) -> String { format!("{}", self) }
            const NAME: &'static str = stringify!($t);
        }
        impl Elem for Option<$t> {
            fn bits(&self) -> (u8,u128) { match self { None => (1,0), Some(v) => (0, *v as u128) } }
            fn guard(i: usize) -> Self { if i % 5 == 4 { None } else { Some(<$t as Elem>::guard(i)) } }
            fn show(&self) -> String { match self { None => "None".into(), Some(v) => format!("{}", v) } }
            const NAME: &'static str = concat!("Option<", stringify!($t), ">");
        }
    )*};
}
elem_int!(i8, i16, i32, i64, i128, u8, u16, u32, u64, u128, usize);

impl Elem for f64 {
    fn bits(&self) -> (u8, u128) {
        (0, self.to_bits() as u128)
    }
    fn guard(i: usize) -> Self {
        -7.0e200 - i as f64 * 1.0e190
    }
    fn show(&self) -> String {
        format!("{:e}", self)
    }
    const NAME: &'static str = "f64";
}
impl Elem for f32 {
    fn bits(&self) -> (u8, u128) {
        (0, self.to_bits() as u128)
    }
    fn guard(i: usize) -> Self {
        -7.0e30 - i as f32 * 1.0e25
    }
    fn show(&self) -> String {
        format!("{:e}", self)
    }
    const NAME: &'static str = "f32";
}
impl Elem for N64 {
    fn bits(&self) -> (u8, u128) {
        (0, self.raw().to_bits() as u128)
    }
    fn guard(i: usize) -> Self {
        N64::unchecked_new(<f64 as Elem>::guard(i))
    }
    fn show(&self) -> String {
        format!("{:e}", self.raw())
    }
    const NAME: &'static str = "N64";
}
impl Elem for N32 {
    fn bits(&self) -> (u8, u128) {
        (0, self.raw().to_bits() as u128)
    }
    fn guard(i: usize) -> Self {
        N32::unchecked_new(<f32 as Elem>::guard(i))
    }
    fn show(&self) -> String {
        format!("{:e}", self.raw())
    }
    const NAME: &'static str = "N32";
}
impl Elem for Option<N64> {
    fn bits(&self) -> (u8, u128) {
        match self {
            None => (1, 0),
            Some(v) => (0, v.raw().to_bits() as u128),
        }
    }
    fn guard(i: usize) -> Self {
        if i % 5 == 4 {
            None
        } else {
            Some(<N64 as Elem>::guard(i))
        }
    }
    fn show(&self) -> String {
        match self {
            None => "None".into(),
            Some(v) => format!("{:e}", v.raw()),
        }
    }
    const NAME: &'static str = "Option<N64>";
}
impl Elem for Option<N32> {
    fn bits(&self) -> (u8, u128) {
        match self {
            None => (1, 0),
            Some(v) => (0, v.raw().to_bits() as u128),
        }
    }
    fn guard(i: usize) -> Self {
        if i % 5 == 4 {
            None
        } else {
            Some(<N32 as Elem>::guard(i))
        }
    }
    fn show(&self) -> String {
        match self {
            None => "None".into(),
            Some(v) => format!("{:e}", v.raw()),
        }
    }
    const NAME: &'static str = "Option<N32>";
}
impl Elem for Tracked {
    fn bits(&self) -> (u8, u128) {
        (0, ((self.key as u128) << 16) | self.id as u128)
    }
    fn guard(i: usize) -> Self {
        Tracked {
            key: 200u8.wrapping_add((i % 50) as u8),
            id: 60000u16.wrapping_add(i as u16),
        }
    }
    fn show(&self) -> String {
        format!("{}#{}", self.key, self.id)
    }
    const NAME: &'static str = "Tracked";
}

pub fn show_vec<A: Elem>(xs: &[A]) -> J {
    J::A(xs.iter().map(|x| J::S(x.show())).collect())
}

// ---------------------------------------------------------------------------
// Weak-order patterns
// ---------------------------------------------------------------------------
/// All weak-order patterns of length `n`: sequences over 0..m whose value set
/// is exactly {0..m-1} for some m (ordered Bell number many).
pub fn weak_orders(n: usize) -> Vec<Vec<u8>> {
    let mut out = Vec::new();
    if n == 0 {
        out.push(vec![]);
        return out;
    }
    let mut a = vec![0u8; n];
    loop {
        let mx = *a.iter().max().unwrap() as usize;
        let mut seen = [false; 16];
        for &x in &a {
            seen[x as usize] = true;
        }
        if (0..=mx).all(|v| seen[v]) {
            out.push(a.clone());
        }
        // increment
        let mut i = n;
        loop {
            if i == 0 {
                return out;
            }
            i -= 1;
            if (a[i] as usize) + 1 < n {
                a[i] += 1;
                for j in i + 1..n {
                    a[j] = 0;
                }
                break;
            }
        }
    }
}

// ---------------------------------------------------------------------------
// Evidence accumulator + violations
// ---------------------------------------------------------------------------
#[derive(Clone, Debug)]
pub struct Violation {
    pub prop: String,
    pub monitor: String,
    /// known-finding class this violation falls into by a predicate on the
    /// failing input (None = unclassified)
    pub class: Option<String>,
    pub section: String,
    pub k: u64,
    pub detail: J,
}

pub struct Acc {
    pub evals: u64,
    /// exact count of distinct non-trivial cases from exhaustive enumerations
    pub exact_nontrivial: u64,
    /// hashes of non-trivial case signatures from generated (random) parts
    pub distinct: HashSet<u64>,
    pub distinct_cap: usize,
    pub counters: BTreeMap<String, u64>,
    pub sets: BTreeMap<String, HashSet<u64>>,
    pub maxes: BTreeMap<String, f64>,
    pub samples: Vec<J>,
    pub sample_cap: usize,
    pub violations: Vec<Violation>,
    pub violations_total: u64,
    pub violations_by_class: BTreeMap<String, u64>,
    pub harness_errors: Vec<String>,
    pub section: String,
    pub k: u64,
    pub prop: String,
}

impl Acc {
    pub fn new(prop: &str) -> Acc {
        Acc {
            evals: 0,
            exact_nontrivial: 0,
            distinct: HashSet::new(),
            distinct_cap: 4_000_000,
            counters: BTreeMap::new(),
            sets: BTreeMap::new(),
            maxes: BTreeMap::new(),
            samples: Vec::new(),
            sample_cap: 6,
            violations: Vec::new(),
            violations_total: 0,
            violations_by_class: BTreeMap::new(),
            harness_errors: Vec::new(),
            section: String::new(),
            k: 0,
            prop: prop.to_string(),
        }
    }
    #[inline]
    pub fn eval(&mut self) {
        self.evals += 1;
    }
    #[inline]
    pub fn count(&mut self, key: &str) {
        self.count_n(key, 1)
    }
    pub fn count_n(&mut self, key: &str, n: u64) {
        if let Some(c) = self.counters.get_mut(key) {
            *c += n;
        } else {
            self.counters.insert(key.to_string(), n);
        }
    }
    /// record a member of a named set whose final cardinality is reported
    pub fn seen(&mut self, set: &str, h: u64) {
        if !self.sets.contains_key(set) {
            self.sets.insert(set.to_string(), HashSet::new());
        }
        let s = self.sets.get_mut(set).unwrap();
        if s.len() < 2_000_000 {
            s.insert(h);
        }
    }
    pub fn max(&mut self, key: &str, v: f64) {
        let e = self.maxes.entry(key.to_string()).or_insert(f64::NEG_INFINITY);
        if v > *e {
            *e = v;
        }
    }
    /// a distinct non-trivial case by signature hash (generated parts)
    #[inline]
    pub fn nontrivial(&mut self, sig: u64) {
        if self.distinct.len() < self.distinct_cap {
            self.distinct.insert(sig);
        }
    }
    pub fn sample(&mut self, f: impl FnOnce() -> J) {
        if self.samples.len() < self.sample_cap {
            let j = f();
            self.samples.push(J::obj(vec![
                ("section", J::s(self.section.clone())),
                ("k", J::I(self.k as i128)),
                ("case", j),
            ]));
        }
    }
    pub fn violation(&mut self, monitor: &str, class: Option<&str>, detail: J) {
        self.violations_total += 1;
        let ck = class.unwrap_or("unclassified").to_string();
        let n = self.violations_by_class.entry(ck).or_insert(0);
        *n += 1;
        if *n <= 20 {
            self.violations.push(Violation {
                prop: self.prop.clone(),
                monitor: monitor.to_string(),
                class: class.map(|s| s.to_string()),
                section: self.section.clone(),
                k: self.k,
                detail,
            });
        }
    }
    pub fn harness_error(&mut self, msg: String) {
        if self.harness_errors.len() < 20 {
            self.harness_errors
                .push(format!("[{} k={}] {}", self.section, self.k, msg));
        }
    }
    pub fn merge(&mut self, o: Acc) {
        self.evals += o.evals;
        self.exact_nontrivial += o.exact_nontrivial;
        for h in o.distinct {
            if self.distinct.len() < self.distinct_cap * 4 {
                self.distinct.insert(h);
            }
        }
        for (k, v) in o.counters {
            *self.counters.entry(k).or_insert(0) += v;
        }
        for (k, v) in o.sets {
            let e = self.sets.entry(k).or_insert_with(HashSet::new);
            for h in v {
                e.insert(h);
            }
        }
        for (k, v) in o.maxes {
            let e = self.maxes.entry(k).or_insert(f64::NEG_INFINITY);
            if v > *e {
                *e = v;
            }
        }
        for s in o.samples {
            if self.samples.len() < 24 {
                self.samples.push(s);
            }
        }
        self.violations_total += o.violations_total;
        for (k, v) in o.violations_by_class {
            *self.violations_by_class.entry(k).or_insert(0) += v;
        }
        for v in o.violations {
            if self.violations.len() < 200 {
                self.violations.push(v);
            }
        }
        for e in o.harness_errors {
            if self.harness_errors.len() < 50 {
                self.harness_errors.push(e);
            }
        }
    }
    pub fn to_json(&self, extra: Vec<(&str, J)>) -> J {
        let mut kv: Vec<(String, J)> = vec![
            ("type".into(), J::s("summary")),
            ("prop".into(), J::s(self.prop.clone())),
            ("evaluations".into(), J::I(self.evals as i128)),
            (
                "distinct_nontrivial".into(),
                J::I((self.exact_nontrivial + self.distinct.len() as u64) as i128),
            ),
            (
                "distinct_exact_part".into(),
                J::I(self.exact_nontrivial as i128),
            ),
            (
                "counters".into(),
                J::O(self
                    .counters
                    .iter()
                    .map(|(k, v)| (k.clone(), J::I(*v as i128)))
                    .collect()),
            ),
            (
                "set_sizes".into(),
                J::O(self
                    .sets
                    .iter()
                    .map(|(k, v)| (k.clone(), J::I(v.len() as i128)))
                    .collect()),
            ),
            (
                "maxes".into(),
                J::O(self
                    .maxes
                    .iter()
                    .map(|(k, v)| (k.clone(), J::F(*v)))
                    .collect()),
            ),
            ("samples".into(), J::A(self.samples.clone())),
            (
                "violations_total".into(),
                J::I(self.violations_total as i128),
            ),
            (
                "violations_by_class".into(),
                J::O(self
                    .violations_by_class
                    .iter()
                    .map(|(k, v)| (k.clone(), J::I(*v as i128)))
                    .collect()),
            ),
            (
                "violations".into(),
                J::A(self
                    .violations
                    .iter()
                    .map(|v| {
                        J::obj(vec![
                            ("prop", J::s(v.prop.clone())),
                            ("monitor", J::s(v.monitor.clone())),
                            (
                                "class",
                                match &v.class {
                                    Some(c) => J::s(c.clone()),
                                    None => J::Null,
                                },
                            ),
                            ("section", J::s(v.section.clone())),
                            ("k", J::I(v.k as i128)),
                            ("detail", v.detail.clone()),
                        ])
                    })
                    .collect()),
            ),
            (
                "harness_errors".into(),
                J::A(self.harness_errors.iter().map(|e| J::s(e.clone())).collect()),
            ),
        ];
        for (k, v) in extra {
            kv.push((k.to_string(), v));
        }
        J::O(kv)
    }
}

// ---------------------------------------------------------------------------
// Command line + parallel case runner
// ---------------------------------------------------------------------------
#[derive(Clone, Debug)]
pub struct Args {
    pub prop: String,
    pub tier: String,
    pub seed: u64,
    pub threads: usize,
    pub section: Option<String>,
    pub only: Option<u64>,
    pub profile: String,
    pub scale: f64,
    /// process only cases with k % kmod == krem (sharding across processes)
    pub kmod: u64,
    pub krem: u64,
    pub rest: Vec<String>,
}

impl Args {
    pub fn parse() -> Args {
        let mut a = Args {
            prop: String::new(),
            tier: "quick".into(),
            seed: 1,
            threads: 16,
            section: None,
            only: None,
            profile: if cfg!(debug_assertions) {
                "checked".into()
            } else {
                "release".into()
            },
            scale: 1.0,
            kmod: 1,
            krem: 0,
            rest: vec![],
        };
        let v: Vec<String> = std::env::args().skip(1).collect();
        let mut i = 0;
        while i < v.len() {
            let nxt = |i: usize| v.get(i + 1).cloned().unwrap_or_default();
            match v[i].as_str() {
                "--prop" => {
                    a.prop = nxt(i);
                    i += 1
                }
                "--tier" => {
                    a.tier = nxt(i);
                    i += 1
                }
                "--seed" => {
                    a.seed = nxt(i).parse().unwrap_or(1);
                    i += 1
                }
                "--threads" => {
                    a.threads = nxt(i).parse().unwrap_or(16);
                    i += 1
                }
                "--section" => {
                    a.section = Some(nxt(i));
                    i += 1
                }
                "--only" => {
                    a.only = nxt(i).parse().ok();
                    i += 1
                }
                "--kmod" => {
                    a.kmod = nxt(i).parse().unwrap_or(1).max(1);
                    i += 1
                }
                "--krem" => {
                    a.krem = nxt(i).parse().unwrap_or(0);
                    i += 1
                }
                "--scale" => {
                    a.scale = nxt(i).parse().unwrap_or(1.0);
                    i += 1
                }
                x => a.rest.push(x.to_string()),
            }
            i += 1;
        }
        a
    }
    pub fn thorough(&self) -> bool {
        self.tier == "thorough"
    }
    /// number of generated cases for a section: quick count or thorough count, scaled
    pub fn n(&self, quick: u64, thorough: u64) -> u64 {
        let b = if self.thorough() { thorough } else { quick };
        ((b as f64) * self.scale).ceil() as u64
    }
}

pub struct Runner {
    pub args: Args,
    pub total: Mutex<Acc>,
    pub sections_run: Mutex<Vec<(String, u64)>>,
}

impl Runner {
    pub fn new(args: Args) -> Runner {
        silence_panics();
        let prop = args.prop.clone();
        Runner {
            args,
            total: Mutex::new(Acc::new(&prop)),
            sections_run: Mutex::new(vec![]),
        }
    }

    /// Runs cases `0..n` of `section` on the worker threads.  `f(k, rng, acc)`
    /// handles case k with an RNG that depends only on (seed, section, k).
    pub fn section<F>(&self, name: &str, n: u64, f: F)
    where
        F: Fn(u64, &mut Rng, &mut Acc) + Sync,
    {
        if let Some(s) = &self.args.section {
            if s != name {
                return;
            }
        }
        let next = AtomicU64::new(0);
        let threads = if self.args.only.is_some() {
            1
        } else {
            self.args.threads.max(1)
        };
        let chunk = (n / (threads as u64 * 16)).clamp(1, 4096);
        let seed = self.args.seed;
        let only = self.args.only;
        let (kmod, krem) = (self.args.kmod, self.args.krem);
        let prop = self.args.prop.clone();
        std::thread::scope(|sc| {
            let mut hs = vec![];
            for _ in 0..threads {
                let next = &next;
                let f = &f;
                let prop = prop.clone();
                hs.push(
                    std::thread::Builder::new()
                        .stack_size(64 << 20)
                        .spawn_scoped(sc, move || {
                            let mut acc = Acc::new(&prop);
                            acc.section = name.to_string();
                            loop {
                                let start = next.fetch_add(chunk, Ordering::Relaxed);
                                if start >= n {
                                    break;
                                }
                                for k in start..(start + chunk).min(n) {
                                    if let Some(o) = only {
                                        if o != k {
                                            continue;
                                        }
                                    }
                                    if k % kmod != krem {
                                        continue;
                                    }
                                    acc.k = k;
                                    let mut rng = Rng::for_case(seed, name, k);
                                    set_budget(u64::MAX);
                                    let r = catch(|| f(k, &mut rng, &mut acc));
                                    if let Err(m) = r {
                                        acc.harness_error(format!(
                                            "harness panicked outside an observed call: {}",
                                            m
                                        ));
                                    }
                                }
                            }
                            set_pivots(Pivots::Natural);
                            acc
                        })
                        .unwrap(),
                );
            }
            for h in hs {
                let acc = h.join().expect("worker thread died");
                self.total.lock().unwrap().merge(acc);
            }
        });
        self.sections_run.lock().unwrap().push((name.to_string(), n));
    }

    pub fn finish(self, driver: &str, extra: Vec<(&str, J)>) {
        let t = self.total.into_inner().unwrap();
        let secs = self.sections_run.into_inner().unwrap();
        let mut ex = vec![
            ("driver", J::s(driver)),
            ("profile", J::s(self.args.profile.clone())),
            ("tier", J::s(self.args.tier.clone())),
            ("seed", J::I(self.args.seed as i128)),
            (
                "sections",
                J::A(secs
                    .iter()
                    .map(|(s, n)| J::obj(vec![("name", J::s(s.clone())), ("cases", J::I(*n as i128))]))
                    .collect()),
            ),
        ];
        ex.extend(extra);
        println!("{}", t.to_json(ex).render());
    }
}

// ---------------------------------------------------------------------------
// Event log (numeric drivers): one JSON record per observed call, judged offline
// ---------------------------------------------------------------------------
static EVENT_LOG: Mutex<Option<std::io::BufWriter<std::fs::File>>> = Mutex::new(None);

pub fn open_event_log(path: &str) {
    let f = std::fs::File::create(path).expect("cannot create event log");
    *EVENT_LOG.lock().unwrap() = Some(std::io::BufWriter::with_capacity(1 << 20, f));
}
/// appends complete lines (each thread hands over a batch)
pub fn log_lines(batch: &str) {
    use std::io::Write;
    if let Some(w) = EVENT_LOG.lock().unwrap().as_mut() {
        w.write_all(batch.as_bytes()).expect("event log write");
    }
}
pub fn close_event_log() {
    use std::io::Write;
    if let Some(mut w) = EVENT_LOG.lock().unwrap().take() {
        w.flush().expect("event log flush");
    }
}

pub fn h64<T: std::hash::Hash>(x: &T) -> u64 {
    use std::hash::Hasher;
    let mut h = std::collections::hash_map::DefaultHasher::new();
    x.hash(&mut h);
    h.finish()
}

/// helper: dynamic-dim array into static dimension
pub fn fix<A, D: Dimension>(a: ArrayD<A>) -> Array<A, D> {
    a.into_dimensionality::<D>().expect("dimensionality")
}

pub fn _unused(_: &Slice, _: &IxDyn) {}
