//! The layout zoo: a logical array (shape + row-major data) is embedded in a
//! larger C-order parent buffer with per-axis steps, reversed axes, padding,
//! an axis permutation, and guard values in every parent cell the view does
//! not address.  The logical-index -> parent-position map is computed here by
//! hand (not asked from ndarray) and self-checked against ndarray's indexing.

use crate::{Elem, Rng, J};
use ndarray::prelude::*;
use ndarray::{IxDyn, Slice};

#[derive(Clone, Debug, PartialEq, Eq, Hash)]
pub struct Layout {
    /// perm[m] = logical axis stored along memory axis m
    pub perm: Vec<usize>,
    /// per memory axis: signed step (|step| >= 1)
    pub step: Vec<isize>,
    pub pad_b: Vec<usize>,
    pub pad_a: Vec<usize>,
}

impl Layout {
    /// C order, contiguous, no padding
    pub fn canonical(nd: usize) -> Layout {
        Layout {
            perm: (0..nd).collect(),
            step: vec![1; nd],
            pad_b: vec![0; nd],
            pad_a: vec![0; nd],
        }
    }
    pub fn fortran(nd: usize) -> Layout {
        Layout {
            perm: (0..nd).rev().collect(),
            step: vec![1; nd],
            pad_b: vec![0; nd],
            pad_a: vec![0; nd],
        }
    }
    pub fn random(nd: usize, rng: &mut Rng) -> Layout {
        let mut perm: Vec<usize> = (0..nd).collect();
        match rng.below(4) {
            0 => {}
            1 => perm.reverse(),
            _ => rng.shuffle(&mut perm),
        }
        let mut step = vec![];
        let mut pad_b = vec![];
        let mut pad_a = vec![];
        // modes: 20% memory-contiguous with positive unit steps (C / F / permuted), 30% memory-contiguous with
        // reversed axes (unit steps, some negative, no padding: `as_slice_memory_order` is Some but memory order
        // is not logical order), 50% general (steps 1..3, reversed, padded)
        let mode = rng.below(10);
        let plain = mode < 5;
        for _ in 0..nd {
            let s = if plain { 1 } else { *rng.pick(&[1isize, 1, 2, 3]) };
            let neg = if mode < 2 { false } else if plain { rng.chance(0.6) } else { rng.chance(0.4) };
            step.push(if neg { -s } else { s });
            pad_b.push(if plain { 0 } else { rng.below(3) });
            pad_a.push(if plain { 0 } else { rng.below(3) });
        }
        Layout {
            perm,
            step,
            pad_b,
            pad_a,
        }
    }
    /// a small fixed family for systematic pairing (index 0 = canonical)
    pub fn family(nd: usize, idx: usize) -> Layout {
        let mut l = Layout::canonical(nd);
        match idx % 8 {
            0 => {}
            1 => l = Layout::fortran(nd),
            2 => {
                for m in 0..nd {
                    l.step[m] = 2;
                    l.pad_b[m] = 1;
                }
            }
            3 => {
                for m in 0..nd {
                    l.step[m] = -1;
                }
            }
            4 => {
                l = Layout::fortran(nd);
                for m in 0..nd {
                    l.step[m] = if m % 2 == 0 { -2 } else { 3 };
                    l.pad_a[m] = 1;
                }
            }
            5 => {
                if nd >= 2 {
                    l.perm.swap(0, nd - 1);
                }
                l.pad_b = vec![2; nd];
                l.pad_a = vec![1; nd];
            }
            6 => {
                l.perm.rotate_left(1.min(nd.saturating_sub(1)));
                for m in 0..nd {
                    l.step[m] = if m % 2 == 0 { 1 } else { -3 };
                }
            }
            _ => {
                for m in 0..nd {
                    l.step[m] = 3;
                    l.pad_b[m] = m % 2;
                    l.pad_a[m] = 2;
                }
            }
        }
        l
    }
    pub fn to_json(&self) -> J {
        J::obj(vec![
            ("perm", J::us(&self.perm)),
            ("step", J::is(&self.step)),
            ("pad_b", J::us(&self.pad_b)),
            ("pad_a", J::us(&self.pad_a)),
        ])
    }
    pub fn class(&self) -> String {
        let nd = self.perm.len();
        let c = self.perm.iter().enumerate().all(|(i, &p)| i == p);
        let f = nd > 1 && self.perm.iter().enumerate().all(|(i, &p)| nd - 1 - i == p);
        format!(
            "{}{}{}{}",
            if c {
                "C"
            } else if f {
                "F"
            } else {
                "P"
            },
            if self.step.iter().any(|&s| s.abs() > 1) {
                "s"
            } else {
                ""
            },
            if self.step.iter().any(|&s| s < 0) {
                "r"
            } else {
                ""
            },
            if self.pad_a.iter().chain(self.pad_b.iter()).any(|&p| p > 0) {
                "o"
            } else {
                ""
            }
        )
    }
}

pub struct Embedded<A> {
    pub parent: ArrayD<A>,
    pub lshape: Vec<usize>,
    pub layout: Layout,
    /// logical flat index (row-major) -> flat position in `parent`
    pub pos: Vec<usize>,
    pub mshape: Vec<usize>,
}

pub fn row_major_strides(shape: &[usize]) -> Vec<usize> {
    let mut st = vec![1usize; shape.len()];
    for i in (0..shape.len().saturating_sub(1)).rev() {
        st[i] = st[i + 1] * shape[i + 1];
    }
    st
}

pub fn unravel(mut flat: usize, shape: &[usize]) -> Vec<usize> {
    let mut idx = vec![0; shape.len()];
    for i in (0..shape.len()).rev() {
        if shape[i] > 0 {
            idx[i] = flat % shape[i];
            flat /= shape[i];
        }
    }
    idx
}

impl<A: Elem> Embedded<A> {
    pub fn new(lshape: &[usize], data: &[A], layout: Layout) -> Embedded<A> {
        let nd = lshape.len();
        assert_eq!(layout.perm.len(), nd);
        let n: usize = lshape.iter().product();
        assert_eq!(n, data.len());
        let mut mshape = vec![0usize; nd];
        for m in 0..nd {
            let len = lshape[layout.perm[m]];
            let s = layout.step[m].unsigned_abs();
            let span = if len == 0 { 0 } else { (len - 1) * s + 1 };
            mshape[m] = layout.pad_b[m] + span + layout.pad_a[m];
        }
        let total: usize = mshape.iter().product();
        let mut buf: Vec<A> = (0..total).map(|i| A::guard(i)).collect();
        let mstr = row_major_strides(&mshape);
        let mut pos = Vec::with_capacity(n);
        for flat in 0..n {
            let l = unravel(flat, lshape);
            let mut p = 0usize;
            for m in 0..nd {
                let len = lshape[layout.perm[m]];
                let c = l[layout.perm[m]];
                let s = layout.step[m].unsigned_abs();
                let along = if layout.step[m] > 0 {
                    layout.pad_b[m] + c * s
                } else {
                    layout.pad_b[m] + (len - 1 - c) * s
                };
                p += along * mstr[m];
            }
            pos.push(p);
        }
        for (flat, &p) in pos.iter().enumerate() {
            buf[p] = data[flat].clone();
        }
        let parent = ArrayD::from_shape_vec(IxDyn(&mshape), buf).expect("parent shape");
        let e = Embedded {
            parent,
            lshape: lshape.to_vec(),
            layout,
            pos,
            mshape,
        };
        e.self_check(data);
        e
    }

    fn slices(&self) -> Vec<Slice> {
        let nd = self.lshape.len();
        (0..nd)
            .map(|m| {
                let len = self.lshape[self.layout.perm[m]];
                let s = self.layout.step[m].unsigned_abs();
                let span = if len == 0 { 0 } else { (len - 1) * s + 1 };
                let start = self.layout.pad_b[m] as isize;
                let end = start + span as isize;
                Slice::new(start, Some(end), self.layout.step[m])
            })
            .collect()
    }

    fn inv_perm(&self) -> Vec<usize> {
        let nd = self.lshape.len();
        let mut inv = vec![0usize; nd];
        for m in 0..nd {
            inv[self.layout.perm[m]] = m;
        }
        inv
    }

    pub fn view(&self) -> ArrayViewD<'_, A> {
        let mut v = self.parent.view();
        for (m, s) in self.slices().into_iter().enumerate() {
            v.slice_axis_inplace(Axis(m), s);
        }
        v.permuted_axes(IxDyn(&self.inv_perm()))
    }

    pub fn view_mut(&mut self) -> ArrayViewMutD<'_, A> {
        let sl = self.slices();
        let inv = self.inv_perm();
        let mut v = self.parent.view_mut();
        for (m, s) in sl.into_iter().enumerate() {
            v.slice_axis_inplace(Axis(m), s);
        }
        v.permuted_axes(IxDyn(&inv))
    }

    /// An *owned* array with this (possibly non-contiguous) layout: the parent
    /// buffer stays the allocation, the array is sliced in place.
    pub fn into_owned_sliced(self) -> ArrayD<A> {
        let sl = self.slices();
        let inv = self.inv_perm();
        let mut a = self.parent;
        for (m, s) in sl.into_iter().enumerate() {
            a.slice_axis_inplace(Axis(m), s);
        }
        a.permuted_axes(IxDyn(&inv))
    }

    pub fn parent_slice(&self) -> &[A] {
        self.parent.as_slice().expect("parent is C-contiguous")
    }

    pub fn parent_bits(&self) -> Vec<(u8, u128)> {
        self.parent_slice().iter().map(|x| x.bits()).collect()
    }

    /// the logical content right now, read straight from the parent buffer
    pub fn logical_now(&self) -> Vec<A> {
        let p = self.parent_slice();
        self.pos.iter().map(|&i| p[i].clone()).collect()
    }

    pub fn in_view_mask(&self) -> Vec<bool> {
        let mut m = vec![false; self.parent.len()];
        for &p in &self.pos {
            m[p] = true;
        }
        m
    }

    fn self_check(&self, data: &[A]) {
        let v = self.view();
        assert_eq!(v.shape(), &self.lshape[..], "zoo: view shape");
        for flat in 0..data.len() {
            let l = unravel(flat, &self.lshape);
            let got = &v[IxDyn(&l)];
            assert!(
                got.bits() == data[flat].bits(),
                "zoo self-check failed: layout {:?} logical {:?}",
                self.layout,
                l
            );
        }
    }
}

/// Logical positions (flat, row-major) of each lane along `axis`:
/// result[lane_flat_index_in_remaining_shape] = vec of logical flat indices.
pub fn lanes_of(lshape: &[usize], axis: usize) -> Vec<Vec<usize>> {
    let nd = lshape.len();
    let st = row_major_strides(lshape);
    let mut rem: Vec<usize> = lshape.to_vec();
    rem.remove(axis);
    let nl: usize = rem.iter().product();
    let mut out = Vec::with_capacity(nl);
    for lf in 0..nl {
        let r = unravel(lf, &rem);
        let mut base = 0usize;
        let mut j = 0;
        for a in 0..nd {
            if a == axis {
                continue;
            }
            base += r[j] * st[a];
            j += 1;
        }
        out.push((0..lshape[axis]).map(|c| base + c * st[axis]).collect());
    }
    out
}

pub fn random_shape(rng: &mut Rng, nd: usize, max_len: usize, max_total: usize) -> Vec<usize> {
    loop {
        let s: Vec<usize> = (0..nd).map(|_| 1 + rng.below(max_len)).collect();
        if s.iter().product::<usize>() <= max_total {
            return s;
        }
    }
}
