#!/bin/bash
# usage: tools/run_seeded.sh <tier> [id ...]     runs the target property's check against each seeded change
# (never run while another ./check is running: the change is applied to /repo's working tree)
tier="${1:-quick}"; shift
ids="$@"; [ -z "$ids" ] && ids=$(ls /verif/seeded | grep -E '^C[0-9]+-[0-9]+$')
for id in $ids; do
  prop=${id%-*}
  t0=$(date +%s)
  line=$(/verif/tools/try_mutant.sh /verif/seeded/$id/patch.diff $tier $prop 2>&1 | tail -1)
  echo "$id [$(( $(date +%s) - t0 ))s] $line"
done
