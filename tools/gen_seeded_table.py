#!/usr/bin/env python3
"""Builds the markdown table of DESIGN.md section 7.1 from /verif/seeded/*/meta.json and the run logs
(notes/seeded_*.log: lines '<id> [..s] <PROP> rc=<n> monitors=[..] ...')."""
import glob, json, os, re, sys
ROOT = os.path.dirname(os.path.dirname(os.path.abspath(__file__)))

def parse(log):
    out = {}
    if not os.path.exists(log):
        return out
    for l in open(log):
        m = re.match(r'(C\d+-\d+) \[\d+s\] (C\d+) rc=(\d+)(?: monitors=\[([^\]]*)\])?', l)
        if m:
            out[m.group(1)] = (int(m.group(3)), m.group(4) or "")
    return out

first = parse(os.path.join(ROOT, "notes", "seeded_first_runs.log"))
final_q = parse(os.path.join(ROOT, "notes", "seeded_final_quick.log"))
final_t = parse(os.path.join(ROOT, "notes", "seeded_final_thorough.log"))
rows = []
def _key(d):
    m = re.match(r"C(\d+)-(\d+)$", os.path.basename(d))
    return (int(m.group(1)), int(m.group(2)))

for d in sorted(glob.glob(os.path.join(ROOT, "seeded", "C*-*")), key=_key):
    m = json.load(open(os.path.join(d, "meta.json")))
    sid = m["id"]
    desc = m["description_by_author"].replace("\n", " ")
    desc = re.sub(r"^\s*(Mutant|M)\s*\d+\s*[-:(]*\s*", "", desc)
    desc = re.sub(r"\s+", " ", desc)[:170].rstrip()
    f = first.get(sid)
    q = final_q.get(sid)
    t = final_t.get(sid)
    def show(x):
        if x is None:
            return "-"
        return {0: "missed", 1: "caught", 2: "inconclusive"}[x[0]] + (" (" + x[1].replace("exact_oracle:", "oracle:") + ")" if x[1] else "")
    rows.append("| %s | %s | %s | %s | %s |" % (sid, desc.replace("|", "/"), show(f).split(" (")[0], show(q), show(t) if t else "-"))
print("| id | change (author's words, abridged) | first quick run | final quick check: monitors that fired | thorough |")
print("|---|---|---|---|---|")
print("\n".join(rows))
