#!/usr/bin/env python3
"""Regenerates /verif/MANIFEST.json from oracle/checkcfg.py (claimed checks) and
properties.jsonl (everything not claimed yet goes to not_applicable with a reason)."""
import json, os, subprocess, sys
ROOT = os.path.dirname(os.path.dirname(os.path.abspath(__file__)))
sys.path.insert(0, os.path.join(ROOT, "oracle"))
from checkcfg import PROPS, MANIFEST_TEXT

props = [json.loads(l) for l in open(os.path.join(ROOT, "properties.jsonl"))]
commits = subprocess.run(["git", "-C", "/repo", "log", "--format=%H %s"], stdout=subprocess.PIPE, text=True).stdout.splitlines()
hook_commits = [c.split()[0] for c in commits if c.split(" ", 1)[1].startswith("verif-hooks")]
checks = []
na = []
for p in props:
    pid = p["id"]
    if pid in PROPS:
        t = MANIFEST_TEXT[pid]
        checks.append({
            "property_id": pid,
            "quick_cmd": "./check %s quick" % pid,
            "thorough_cmd": "./check %s thorough" % pid,
            "evidence_file": "/verif/evidence/%s.json" % pid,
            "replay_cmd_template": "./check --replay {path}",
            "engine": t.get("engine", "harness"),
            "level_claimed": {"category": "exploration", "text": t["level_text"], "design_ref": t["design_ref"]},
            "level_note": t["level_note"],
            "technique": t["technique"],
        })
    else:
        na.append({"property_id": pid, "reason": "runtime monitoring applies to this property (see DESIGN.md section 3) but its check is not built yet in this commit; it is not claimed until the monitor exists and is silent on the unchanged tree"})
m = {
    "version": 1,
    "setup_cmd": "./check --setup",
    "hooks": {
        "guard": "cargo feature verif-hooks (of the ndarray-stats crate; off by default)",
        "enable": "the harness crate /verif/harness depends on { path = \"/repo\", features = [\"verif-hooks\"] }; every check runs cargo build there, which recompiles /repo's working tree",
        "baseline_off_cmd": "cd /repo && (cargo nextest run --workspace --no-fail-fast --test-threads 8 --offline || cargo test --workspace --no-fail-fast --offline)",
        "source_commits": hook_commits[::-1],
        "add_only": True,
    },
    "engines": [
        {"name": "harness", "path": "/verif/harness", "serves_properties": sorted(PROPS.keys()),
         "kind_free_text": "Rust driver binaries that execute the real crate under generated/enumerated hostile workloads (layout zoo with guard cells, scripted/enumerated pivot sequences, two build profiles) with in-process reference-model, shadow-buffer, history and differential monitors; numeric event logs are judged offline by exact rational / 60-digit decimal oracles in /verif/oracle (python3 stdlib); the memory driver is additionally run under Miri, AddressSanitizer and valgrind memcheck"},
    ],
    "checks": checks,
    "not_applicable": na,
    "notes": "Every check is ./check <ID> quick|thorough (python3 stdlib front end). Exit 0 = held on everything observed, 1 = VIOLATION (replay file under /verif/replays), 2 = INCONCLUSIVE (never reported as a violation). Known findings: /verif/known_findings.json. VERIF_SEED seeds all random choices; exhaustive parts do not depend on it.",
}
json.dump(m, open(os.path.join(ROOT, "MANIFEST.json"), "w"), indent=1)
print("claimed:", [c["property_id"] for c in checks], "not_applicable:", [n["property_id"] for n in na])
