#!/bin/bash
# usage: tools/confirm_mutant.sh <PROP> <mN>     (files from /tmp/mutout/<PROP>/, scratch worktree /tmp/mut/<PROP>)
# Confirms: demo passes on the clean tree, fails with the change; the whole unedited suite passes with the change.
set -u
id="$1"; m="$2"; wt=${MUTWT:-/tmp/mut}/$id; out=${MUTOUT:-/tmp/mutout}/$id
cd "$wt" || exit 9
git checkout -q -- . ; rm -f tests/zz_demo.rs
export CARGO_TARGET_DIR=$wt/target
cp "$out/${m}_demo.rs" tests/zz_demo.rs
clean=$(cargo test --offline --test zz_demo 2>&1 | grep -E "^test result" | tail -1)
git apply "$out/$m.diff" || { echo "$id $m: patch does not apply"; rm -f tests/zz_demo.rs; exit 9; }
mut=$(cargo test --offline --test zz_demo 2>&1 | grep -E "^test result|error(\[|:)" | tail -1)
rm -f tests/zz_demo.rs
s1=$(cargo test --offline 2>&1 | grep -E "^test result" | awk '{p+=$4; f+=$6} END {print p" passed "f" failed"}')
s2=$(cargo test --offline 2>&1 | grep -E "^test result" | awk '{p+=$4; f+=$6} END {print p" passed "f" failed"}')
git checkout -q -- .
echo "$id $m | demo clean: $clean | demo mutant: $mut | suite with mutant: $s1 ; $s2"
