#!/usr/bin/env python3
"""usage: tools/store_round.py <mutout dir> <confirm log> <round no> <first suffix>
Copies confirmed seeded changes m1/m2 of every property found in <mutout dir> to /verif/seeded/<Cxx>-<suffix>/."""
import json, os, re, shutil, sys
out, conflog, rnd, first = sys.argv[1], sys.argv[2], int(sys.argv[3]), int(sys.argv[4])
conf = {}
for l in open(conflog):
    m = re.match(r'(C\d+) (m\d) \| (.*)', l)
    if m:
        conf[(m.group(1), m.group(2))] = m.group(3).strip()
props = {json.loads(l)['id']: json.loads(l) for l in open('/verif/properties.jsonl')}
n = 0
for pid in sorted(os.listdir(out)):
    if pid not in props:
        continue
    for k, m in ((first, 'm1'), (first + 1, 'm2')):
        src = os.path.join(out, pid)
        if not os.path.exists('%s/%s.diff' % (src, m)):
            continue
        ob = conf.get((pid, m), "")
        ok = "demo clean: test result: ok" in ob and "error: test failed" in ob and " 0 failed" in ob
        if not ok:
            print("NOT CONFIRMED, skipped:", pid, m, "|", ob[:160])
            continue
        d = '/verif/seeded/%s-%d' % (pid, k)
        os.makedirs(d, exist_ok=True)
        shutil.copy('%s/%s.diff' % (src, m), d + '/patch.diff')
        shutil.copy('%s/%s_demo.rs' % (src, m), d + '/demo.rs')
        meta = {"id": "%s-%d" % (pid, k), "round": rnd, "breaks_property": pid, "property_title": props[pid]['title'],
                "author": "independent sub-agent (round %d: told the themes of the earlier rounds and asked for a different kind; given only the property text and a scratch worktree, no access to /verif)" % rnd,
                "description_by_author": open('%s/%s.txt' % (src, m)).read().strip(),
                "confirmed": {"how": "tools/confirm_mutant.sh in a scratch worktree at /repo HEAD 41c4593 (demo on the clean tree, demo with the patch, the whole unedited suite twice with the patch)", "observed": ob},
                "caught_by": "see DESIGN.md section 7.1"}
        json.dump(meta, open(d + '/meta.json', 'w'), indent=1)
        n += 1
print(n, "stored")
