#!/usr/bin/env python3
"""Rewrites DESIGN.md section 7.1 (header + table of seeded changes) from the run logs under notes/."""
import os, re, subprocess, sys
ROOT = os.path.dirname(os.path.dirname(os.path.abspath(__file__)))
def parse(log):
    out = {}
    p = os.path.join(ROOT, "notes", log)
    if not os.path.exists(p):
        return out
    for l in open(p):
        m = re.match(r'(C\d+-\d+) \[\d+s\] (C\d+) rc=(\d+)', l)
        if m:
            out[m.group(1)] = int(m.group(3))
    return out
first = parse("seeded_first_runs.log")
fq = parse("seeded_final_quick.log")
ft = parse("seeded_final_thorough.log")
ids = sorted(os.listdir(os.path.join(ROOT, "seeded")))
n = len(ids)
caught_q = sum(1 for i in ids if fq.get(i) == 1)
missed_q = [i for i in ids if fq.get(i) != 1]
caught_t = sum(1 for i in ids if fq.get(i) == 1 or ft.get(i) == 1)
still = [i for i in ids if fq.get(i) != 1 and ft.get(i) != 1]
first_caught = sum(1 for i in ids if first.get(i) == 1)
table = subprocess.run([sys.executable, os.path.join(ROOT, "tools", "gen_seeded_table.py")], capture_output=True, text=True).stdout
header = """### 7.1 Seeded changes and which checks catch them

%d seeded changes (10 rounds; 2 per property and round, 29 in the ninth; the tenth is a short time-boxed round with one change for each of fourteen properties, brief in `notes/agent_prompts/round10_C05.txt`), all confirmed as described above.  Columns: the
result of the property's quick check on the FIRST run against the change - with the harness as it was committed
before the round's changes had been looked at (round 1: before any seeded change had been seen; rounds 3-10:
measured by running that commit's `check`; logs `notes/seeded_round<N>_harness_before_round<N>.log`, collected in
`notes/seeded_first_runs.log`) - and the result with the committed harness (`notes/seeded_final_quick.log`,
`notes/seeded_final_thorough.log`; exit status 1 = VIOLATION reported = caught).  First runs: %d of %d caught.
Final tally: **%d of %d caught by the quick check of the property they target, %d of %d by quick or thorough**%s.
Monitor names are those of the replay records (`oracle:*` = offline exact oracle on that operation).

""" % (n, first_caught, n, caught_q, n, caught_t, n,
       ("; caught by the thorough tier only: " + ", ".join(i for i in missed_q if ft.get(i) == 1)) if any(ft.get(i) == 1 for i in missed_q) else "")
if still:
    header = header.replace("\nMonitor names", "\nNot caught by either tier: " + ", ".join(still) + " (see the narrative above).\nMonitor names")
p = os.path.join(ROOT, "DESIGN.md")
s = open(p).read()
a = s.index("### 7.1 Seeded changes and which checks catch them")
b = s.index("### 7.2 Silence on the unchanged tree")
s = s[:a] + header + table + "\n\n" + s[b:]
open(p, "w").write(s)
print("first", first_caught, "final quick", caught_q, "quick or thorough", caught_t, "of", n, "missed quick:", missed_q, "still:", still)
