#!/bin/bash
# usage: tools/try_mutant.sh <patch.diff> <tier> <PROP> [PROP...]
# Applies a seeded change to /repo's working tree, runs the given checks, restores /repo.
# Prints one line per property:  <PROP> rc=<exit status>  (1 = caught, 0 = missed, 2 = inconclusive) and the
# monitors that fired.  Never run it while another ./check is running (checks rebuild from /repo's working tree).
set -u
patch="$(readlink -f "$1")"; tier="$2"; shift 2
cd /repo || exit 9
if [ -n "$(git status --porcelain)" ]; then echo "/repo not clean"; exit 9; fi
git apply "$patch" || { echo "patch does not apply"; exit 9; }
trap 'git -C /repo checkout -- . ; git -C /repo clean -fdq tests/ 2>/dev/null' EXIT
cd /verif
for p in "$@"; do
  rm -rf "replays/$p"
  out=$(./check "$p" "$tier" 2>/dev/null); rc=$?
  mons=$(python3 - "$p" <<'PY'
import json,glob,sys
m={}
for f in glob.glob('/verif/replays/%s/*.json'%sys.argv[1]):
    r=json.load(open(f)); k=(r.get('stage') or '')+':'+r['monitor'] if str(r.get('stage','')).startswith('sanitizer') else r['monitor']
    m[k]=m.get(k,0)+1
print(",".join(sorted(m)))
PY
)
  echo "$p rc=$rc monitors=[$mons] $(echo "$out" | tail -1 | cut -c1-140)"
done
