#!/bin/bash
# usage: tools/try_mutant.sh <patch.diff> <tier> <PROP> [PROP...]
# Applies a seeded change to /repo's working tree, runs the given checks, restores /repo.
# Prints one line per property:  <PROP> rc=<exit status>  (1 = caught, 0 = missed, 2 = inconclusive)
set -u
patch="$1"; tier="$2"; shift 2
cd /repo || exit 9
if [ -n "$(git status --porcelain)" ]; then echo "/repo not clean"; exit 9; fi
git apply "$patch" || { echo "patch does not apply"; exit 9; }
trap 'git -C /repo checkout -- . ; git -C /repo clean -fdq tests/ 2>/dev/null' EXIT
cd /verif
for p in "$@"; do
  out=$(./check "$p" "$tier" 2>/dev/null); rc=$?
  echo "$p rc=$rc $(echo "$out" | grep -c '^VIOLATION') violation line(s); $(echo "$out" | tail -1 | cut -c1-160)"
done
