# calibrate C10 (entropy / cross-entropy / KL) and C08 (cov, pearson) bound shapes; f64 emulation of the crate's op order
import random, math, sys
from fractions import Fraction as F
from decimal import Decimal as D, getcontext
getcontext().prec = 60
sys.path.insert(0, '.')
from cal2 import west_bound
u = F(1, 2**53)
def dln(fr): return (D(fr.numerator) / D(fr.denominator)).ln()
def toF(d): return F(d)
rnd = random.Random(5)
# ---------- C10
worst = {'ent': 0, 'xent': 0, 'kl': 0}
for it in range(0):
    n = rnd.choice([1, 2, 3, 8, 33, 64])
    def dist():
        v = [10.0 ** rnd.uniform(-12, 2) if rnd.random() < .3 else rnd.random() for _ in range(n)]
        if rnd.random() < .5: s = sum(v); v = [x / s for x in v]
        for i in range(n):
            if rnd.random() < .1: v[i] = 0.0
        return v
    p = dist(); q = [x if x > 0 else 1e-3 for x in dist()]
    if rnd.random() < .3: q = [pi * (1 + rnd.uniform(-1e-9, 1e-9)) if pi > 0 else 0.5 for pi in p]   # q ~ p : ln(q/p) ~ 0
    ent = -sum((x * math.log(x) if x != 0 else 0.0) for x in p)
    xent = -sum((a * math.log(b) if a != 0 else 0.0) for a, b in zip(p, q))
    kl = -sum((a * math.log(b / a) if a != 0 else 0.0) for a, b in zip(p, q))
    P = [F(x) for x in p]; Q = [F(x) for x in q]
    te = [toF(D(x.numerator) / D(x.denominator) * dln(x)) if x else F(0) for x in P]
    tx = [a * toF(dln(b)) if a else F(0) for a, b in zip(P, Q)]
    tk = [a * toF(dln(b / a)) if a else F(0) for a, b in zip(P, Q)]
    sp = sum(abs(a) for a in P)
    for name, got, terms in (('ent', ent, te), ('xent', xent, tx), ('kl', kl, tk)):
        exact = -sum(terms); tol = (n + 8) * u * sum(abs(t) for t in terms) + 4 * u * sp
        if tol == 0: assert F(got) == exact; continue
        r = float(abs(F(got) - exact) / tol); worst[name] = max(worst[name], r)
print("C10 max err/tol:", worst)
# ---------- C08
def cov_fp(X, ddof):
    r, o = len(X), len(X[0])
    means = [sum(row) / o for row in X]
    Dn = [[x - m for x in row] for row, m in zip(X, means)]
    return [[sum(a * b for a, b in zip(Dn[i], Dn[j])) / (o - ddof) for j in range(r)] for i in range(r)]
def std_fp(row):  # ndarray var_axis (Welford), ddof 0, without fma
    mean = 0.0; ss = 0.0
    for i, x in enumerate(row):
        d = x - mean; mean = mean + d / (i + 1); ss = (x - mean) * d + ss
    return math.sqrt(ss / len(row))
wc = 0; wr = 0; skipped = 0; total = 0; mxabs = 0
for it in range(3000):
    r = rnd.choice([1, 2, 3, 5, 8]); o = rnd.choice([2, 3, 5, 16, 64]); mode = rnd.randrange(3)
    X = []
    for i in range(r):
        if mode == 0: X.append([rnd.uniform(-1, 1) for _ in range(o)])
        elif mode == 1: M = 10.0 ** rnd.randint(0, 8); X.append([M + rnd.uniform(-1, 1) for _ in range(o)])
        else: base = X[0] if X and rnd.random() < .5 else [rnd.gauss(0, 1) for _ in range(o)]; X.append([b * rnd.uniform(.5, 2) + rnd.gauss(0, 1e-3) for b in base])
    ddof = rnd.choice([0.0, 1.0, 0.5])
    C = cov_fp(X, ddof)
    XF = [[F(x) for x in row] for row in X]; m = [sum(row) / o for row in XF]
    delta = [(o + 2) * u * sum(abs(x) for x in row) / o for row in XF]
    dof = F(o) - F(ddof)
    ex = [[sum((a - m[i]) * (b - m[j]) for a, b in zip(XF[i], XF[j])) / dof for j in range(r)] for i in range(r)]
    tolc = [[(o + 6) * u * sum((abs(a - m[i]) + delta[i]) * (abs(b - m[j]) + delta[j]) for a, b in zip(XF[i], XF[j])) / dof + o * delta[i] * delta[j] / dof for j in range(r)] for i in range(r)]
    for i in range(r):
        for j in range(r):
            if tolc[i][j] == 0: continue
            wc = max(wc, float(abs(F(C[i][j]) - ex[i][j]) / tolc[i][j]))
    # pearson (ddof 0)
    C0 = cov_fp(X, 0.0); sd = [std_fp(row) for row in X]
    S = [sum((a - m[i]) ** 2 for a in XF[i]) for i in range(r)]
    for i in range(r):
        for j in range(r):
            total += 1
            if S[i] == 0 or S[j] == 0: skipped += 1; continue
            den = sd[i] * sd[j]; 
            if den == 0: skipped += 1; continue
            rho = C0[i][j] / den
            exc = sum((a - m[i]) * (b - m[j]) for a, b in zip(XF[i], XF[j])) / o
            tc = (o + 6) * u * sum((abs(a - m[i]) + delta[i]) * (abs(b - m[j]) + delta[j]) for a, b in zip(XF[i], XF[j])) / o
            # variance tolerances from the West bound (unit weights), in S units
            tv = []
            for k in (i, j):
                _, Es, _ = west_bound(X[k], [1.0] * o); tv.append((Es + 3 * u * S[k]) / o)
            vi, vj = S[i] / o, S[j] / o
            if tv[0] * 4 > vi or tv[1] * 4 > vj: skipped += 1; continue
            # decimal evaluation
            dvi, dvj = D(vi.numerator) / D(vi.denominator), D(vj.numerator) / D(vj.denominator)
            si, sj = dvi.sqrt(), dvj.sqrt()
            exrho = (D(exc.numerator) / D(exc.denominator)) / (si * sj)
            dtc = D(tc.numerator) / D(tc.denominator)
            tsi = (D(tv[0].numerator) / D(tv[0].denominator)) / (2 * si) * D('1.2'); tsj = (D(tv[1].numerator) / D(tv[1].denominator)) / (2 * sj) * D('1.2')
            tol = (dtc + abs(exrho) * (sj * tsi + si * tsj + tsi * tsj)) / ((si - tsi) * (sj - tsj)) + D(8) * D(float(u)) * (abs(exrho) + 1)
            err = abs(D(rho) - exrho)
            wr = max(wr, float(err / tol)); mxabs = max(mxabs, float(abs(D(rho)) - 1 - tol))
print("C08 cov max err/tol: %.3f ; pearson max err/tol: %.3f (skipped degenerate %d of %d); max(|rho|-1-tol) = %.2e" % (wc, wr, skipped, total, mxabs))
