import random, math, sys
from fractions import Fraction as F
sys.path.insert(0, '.')
from cal import west, gen
u = F(1, 2**53)

def west_bound(xs, ws):
    """first-order a-priori forward error bound of West's recurrence (w_i>=0), exact arithmetic.
    returns (S, Es) with |s_fp - S| <~ Es"""
    W = F(0); m = F(0); s = F(0); Em = F(0); Es = F(0)
    i = 0
    for x, w in zip(xs, ws):
        i += 1
        x = F(x); w = F(w)
        W += w
        if W == 0: continue
        d = x - m
        r = w / W
        m_new = m + r * d
        Em_new = Em + u * (abs(m_new) + (i + 3) * r * abs(d))
        e = x - m_new
        term = w * d * e
        Es += w * (Em * abs(e) + abs(d) * Em_new) + 5 * u * abs(term)
        s += term
        Es += u * abs(s)
        m = m_new; Em = Em_new
    return s, Es, W

rnd = random.Random(2)
worst = {}; loose = {}
for it in range(30000):
    n = rnd.choice([1, 2, 3, 5, 8, 16, 33, 64])
    mode = rnd.randrange(4)
    xs = gen(n, mode, rnd)
    wm = rnd.randrange(4)
    if wm == 0: ws = [1.0]*n
    elif wm == 1: ws = [rnd.uniform(0.01, 10) for _ in range(n)]
    elif wm == 2: ws = [10.0 ** rnd.uniform(-6, 6) for _ in range(n)]
    else: ws = [rnd.choice([0.0, 1.0, 3.0]) for _ in range(n)]; ws[-1] = 2.0
    if wm == 3 and ws[0] == 0.0: ws[0] = 1.0   # leading zero -> NaN (separate finding)
    ddof = rnd.choice([0.0, 1.0, 0.5])
    S, Es, W = west_bound(xs, ws)
    den = W - F(ddof)
    if den <= 0: continue
    got = west(xs, ws, ddof)
    if math.isnan(got) or math.isinf(got): print("nan/inf", xs, ws); continue
    err = abs(F(got) * den - S)
    tol = Es + u * abs(S) * 3   # + final division roundings
    k = (mode, wm)
    if tol == 0:
        if err: print("ZERO tol nonzero err", k, xs, ws)
        continue
    r = float(err / tol)
    if r > worst.get(k, (0,))[0]: worst[k] = (r, n)
    rel = float(tol / S) if S else float('inf')
    loose.setdefault(k, []).append(rel)
for k in sorted(worst):
    l = sorted(loose[k]); print("mode,wm", k, "max err/tol = %.3f (n=%d)   median tol/S = %.2e  p90 = %.2e" % (worst[k][0], worst[k][1], l[len(l)//2], l[int(len(l)*.9)]))
