import random, math
from fractions import Fraction as F
from math import comb
u = F(1, 2**53)

def west(xs, ws, ddof):
    W = 0.0; mean = 0.0; s = 0.0
    for x, w in zip(xs, ws):
        W += w
        d = x - mean
        mean += (w / W) * d
        s += w * d * (x - mean)
    return s / (W - ddof)

def exact_var(xs, ws, ddof):
    X = [F(x) for x in xs]; Wt = [F(w) for w in ws]
    W = sum(Wt); m = sum(w*x for w, x in zip(Wt, X)) / W
    S = sum(w*(x-m)**2 for w, x in zip(Wt, X))
    T = sum(abs(w)*x*x for w, x in zip(Wt, X))
    den = W - F(ddof)
    return (S / den if den != 0 else None), S, T, W, m

def fsqrt(fr):  # sqrt of Fraction as float (upper-ish)
    return math.sqrt(float(fr)) * (1 + 1e-12)

def gen(n, mode, rnd):
    if mode == 0: xs = [rnd.uniform(-1, 1) for _ in range(n)]
    elif mode == 1:
        M = 10.0 ** rnd.randint(0, 12); sp = 10.0 ** rnd.randint(-6, 2)
        xs = [M + rnd.uniform(-sp, sp) for _ in range(n)]
    elif mode == 2: xs = [rnd.choice([-1, 1]) * 10.0 ** rnd.uniform(-8, 8) for _ in range(n)]
    else:
        M = 2.0 ** rnd.randint(20, 50); xs = [M + rnd.randint(-3, 3) for _ in range(n)]
    return xs

rnd = random.Random(1)
worst = {}
for it in range(30000):
    n = rnd.choice([1, 2, 3, 5, 8, 16, 33, 64])
    mode = rnd.randrange(4)
    xs = gen(n, mode, rnd)
    wm = rnd.randrange(3)
    ws = [1.0]*n if wm == 0 else ([rnd.uniform(0.01, 10) for _ in range(n)] if wm == 1 else [10.0 ** rnd.uniform(-6, 6) for _ in range(n)])
    ddof = rnd.choice([0.0, 1.0, 0.5, 0.25])
    ev, S, T, W, m = exact_var(xs, ws, ddof)
    if W - F(ddof) <= 0: continue
    got = west(xs, ws, ddof)
    if math.isnan(got) or math.isinf(got): continue
    err = abs(F(got) - ev) * (W - F(ddof))  # error in S units
    unit = float(u) * (n * float(S) + n * fsqrt(S * T))
    if unit == 0:
        if err != 0: print("ZERO-UNIT nonzero err", xs, ws, ddof, got); 
        continue
    r = float(err) / unit
    k = (mode, wm)
    if r > worst.get(k, (0,))[0]: worst[k] = (r, n, float(S), float(T))
for k in sorted(worst): print("west mode,wm", k, "max err/(u*(nS+n*sqrt(ST))) = %.3f n=%d S=%.3g T=%.3g" % worst[k])
