import random, math, sys
from fractions import Fraction as F
from math import comb
sys.path.insert(0, '.')
from cal import gen
u = F(1, 2**53)
def powi(x, k):
    r = 1.0
    for _ in range(k): r *= x
    return r
def central_moment_fp(xs, p):
    n = float(len(xs))
    mean = sum(xs) / n
    y = [x - mean for x in xs]
    mom = [1.0, sum(y) / n] + [sum(powi(v, k) for v in y) / n for k in range(2, p + 1)]
    corr = -mom[1]
    order = len(mom)
    # IterBinomial::new(order) yields C(order,0..=order); zipped with moments reversed (len order) 
    coeffs = [float(comb(order, k)) * m for k, m in zip(range(order + 1), reversed(mom))]
    res = 0.0
    for c in reversed(coeffs): res = c + corr * res
    return res
def exact_cm(xs, p):
    X = [F(x) for x in xs]; n = len(X); m = sum(X) / n
    return sum((x - m) ** p for x in X) / n, m
rnd = random.Random(3)
worst = {}
for it in range(20000):
    n = rnd.choice([1, 2, 3, 5, 8, 16, 33, 64]); mode = rnd.randrange(4); p = rnd.randint(2, 8)
    xs = gen(n, mode, rnd)
    got = central_moment_fp(xs, p)
    if math.isnan(got) or math.isinf(got): continue
    ex, m = exact_cm(xs, p)
    X = [F(x) for x in xs]
    delta = (n + 2) * u * sum(abs(x) for x in X) / n
    A = sum((abs(x - m) + 2 * delta) ** p for x in X) / n
    tol = (n + 4 * p + 8) * u * A
    err = abs(F(got) - ex)
    if tol == 0:
        if err: print("zero tol, err", xs, p)
        continue
    r = float(err / tol); k = (mode, p)
    if r > worst.get(k, (0,))[0]: worst[k] = (r, n, float(tol / abs(ex)) if ex else float('inf'))
for k in sorted(worst): print("mode,p", k, "max err/tol %.4f n=%d  tol/|exact| there = %.2e" % worst[k])
