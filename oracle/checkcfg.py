"""Per-property configuration of ./check: which driver stages decide it, the
evidence 'rule' text and the stated assumptions."""

COMMON_ASSUME = [
    "ndarray, noisy_float, indexmap, rand and the Rust standard library behave as documented (they are exercised, not judged)",
    "the pivot hook (cargo feature verif-hooks) only observes/replaces the drawn pivot position; with the feature off the crate is unchanged",
]

PROPS = {
    "C01": {
        "stages": [{"bin": "quant"}],
        "rule": "random part: element types i8,u8,i16,i32,i64,u64,usize,N32,N64 (round robin); 1..4 dims, every axis, lane length 1..40 (1-D to 300), zoo layouts (steps, reversed, permuted axes, offset in a guarded parent), static and dynamic dimensionality; contents: tiny alphabets (heavy ties), constant, sorted, reversed, organ pipe, type extremes, wide random; q in {0, 1, k/(N-1) and its float neighbours, (k+.5)/(N-1) and neighbours, up to 8 ulps around, 5e-324, 1-2^-53, uniform}; all five strategies; entry points quantile(s)_axis_mut and quantile(s)_mut; every case executed 3 times under different pivot policies (determinism). Oracle: sort the lane, index pair and fraction in two readings (f64 product and exact rational product, exact dyadic arithmetic), strategy-specific acceptance. distinct = hash of (type, shape, axis, layout, entry, strategy, q bits, data bits), non-trivial = lane length >= 2 and >= 1 q. Exhaustive part: all weak-order patterns of length <= 4 (5 thorough) x q grid x 5 strategies x ALL pivot sequences for i32, u8, N64.",
        "exhaustive": False,
        "assumptions": COMMON_ASSUME + ["'(N-1)q' is read either as the f64 product or as the exact rational product; a result matching either reading is accepted", "Linear on 64-bit integers is judged only when |lower|,|higher| < 2^52 (stated in the property)"],
    },
    "C18": {
        "stages": [{"bin": "quant"}],
        "rule": "differential monitor between two executions of the real code on equal inputs (fresh embeddings, independent pivot policies): slice j of quantiles_axis_mut / quantiles_mut vs quantile_axis_mut / quantile_mut for q_j (request lists of length 0..32, unordered, with repeats, q sharing / straddling an index, 9 element types, 5 strategies, zoo layouts, every axis); get_many_from_sorted_mut(I)[i] vs get_from_sorted_mut(i) for request lists of length 0..32 on strided views. distinct = hash of (type, shape, axis, layout, strategy, q bits / request, data); non-trivial = >= 2 requests on a lane of length >= 2.",
        "exhaustive": False,
        "assumptions": COMMON_ASSUME,
    },
    "C19": {
        "stages": [{"bin": "quant"}],
        "rule": "metamorphic monitor (no oracle) on 1-D lanes of 9 element types in zoo layouts: per lane a dense q grid (0, 1, 6 random k/(N-1) and (k+.5)/(N-1) with neighbours at 1, 2, 8 ulps, uniform) evaluated for all 5 strategies; relations: monotone in q, min at 0 / max at 1 / within [min,max], Lower <= {Nearest, Midpoint, Linear} <= Higher, all equal when (N-1)q is integral (exactly and in f64), invariance under ALL permutations for N <= 6 (12 sampled above), commutation with a strictly increasing relabelling for Lower/Higher/Nearest. Float Midpoint/Linear relations allow 4u x operand magnitude. distinct = hash of (type, layout, data bits); non-trivial = N >= 2.",
        "exhaustive": False,
        "assumptions": COMMON_ASSUME + ["for float interpolation 'one unit in the last place' is taken at the magnitude of the interpolated operands (bounded by the lane's extreme magnitude where no oracle is available)"],
    },
    "C02": {
        "stages": [{"bin": "sel"}],
        "rule": "exhaustive part: every weak-order pattern of length 1..L (L=7 quick, 8 thorough; strided views and bulk form to smaller L) x every in-range index / every non-empty index subset in 3 presentations x EVERY pivot sequence (enumerated through the pivot hook by depth-first replay); each (pattern, request, pivot sequence) execution with n>=2 is one distinct non-trivial case (counted exactly). Random part: lengths up to 300, heavy ties, strides in {1,2,3,-1,-2,-3}, 6 pivot policies; distinct = hash of (keys, request, layout, pivot log). Oracle: std sort of the snapshot + post-condition + multiset-by-id + guard cells.",
        "exhaustive": True,
        "exhaustive_bound": {"quick": "patterns n<=7 single (n<=5 strided, n<=5 bulk), all pivot sequences", "thorough": "patterns n<=8 single (n<=6 strided, n<=6 bulk), all pivot sequences"},
        "assumptions": COMMON_ASSUME + ["behaviour of a comparison-only generic routine depends only on the weak-order pattern of the input (stated in the property)"],
    },
    "C15": {
        "stages": [{"bin": "sel"}],
        "rule": "exhaustive part: every weak-order pattern of length 1..L (L=7 quick, 8 thorough) x every pivot position x strides {1,2,3,-1,-2} (strided up to length 6) inside a guarded parent buffer; each (pattern, position, stride) is one distinct case, counted exactly. Random part: lengths up to 500; distinct = hash of (keys, position, layout). Oracle: rank = #{x < pivot}, position k holds the pivot value, strict left side, >= right side, multiset by id, guards.",
        "exhaustive": True,
        "exhaustive_bound": {"quick": "patterns n<=7", "thorough": "patterns n<=8"},
        "assumptions": COMMON_ASSUME,
    },
    "C16": {
        "stages": [{"bin": "sel"}],
        "rule": "out-of-range: every weak-order pattern of length 0..L (L=6 quick, 7 thorough) x positions {n, n+1, 2n+3, MAX/2+1, MAX-1, MAX} x EVERY pivot sequence for single selection; bulk requests with an out-of-range member alone / repeated / first / last / mixed; partition on plain, stepped and reversed views; Edges/Bins/Grid with 0..6 edges per axis (1..3 axes), every single out-of-range coordinate and wrong arity. In-range: the C02/C15 exhaustive workloads replayed with only the unwind bit observed, plus every in-range Edges/Bins/Grid position. Both build profiles (release; checked = debug assertions + overflow checks). Each (input, position, pivot sequence) is a distinct case, counted exactly.",
        "exhaustive": True,
        "exhaustive_bound": {"quick": "patterns n<=6", "thorough": "patterns n<=7"},
        "assumptions": COMMON_ASSUME + ["'panics' is observed as an unwind caught by catch_unwind (both profiles are built with panic=unwind)"],
    },
}

SANITIZER_STAGES = {}

_EXPL = "exploration: the real code is executed and every execution is judged by an independent oracle; "
MANIFEST_TEXT = {
    "C01": {
        "technique": "runtime monitoring: reference-model oracle (sort + exact dyadic arithmetic for index/fraction/interpolation) over executions of the real quantile code; determinism monitor across pivot policies; all pivot sequences for short lanes",
        "level_text": _EXPL + "seeded generation over element types, dimensionalities, axes, layouts, q classes around every index boundary and all strategies, plus complete pivot-sequence enumeration for lanes up to length 4/5.",
        "level_note": "trusted: std sort, num-bigint for the exact dyadic arithmetic, the harness's logical-index map (self-checked); float tolerance 8u*max(|lo|,|hi|)",
        "design_ref": "DESIGN.md section 3 C01",
    },
    "C18": {
        "technique": "runtime monitoring: differential monitor between bulk and single-item executions of the real code (quantiles, selection; moments and per-axis weighted statistics via the numeric event log)",
        "level_text": _EXPL + "both sides are the real code on cloned inputs under independent pivot policies; equality is bit-exact for order statistics.",
        "level_note": "trusted: nothing beyond ndarray indexing of the two results",
        "design_ref": "DESIGN.md section 3 C18",
    },
    "C19": {
        "technique": "runtime monitoring: metamorphic relations between executions of the real quantile code (no reference model)",
        "level_text": _EXPL + "relations need no oracle and therefore also cover inputs where an oracle would share a misreading of the definition.",
        "level_note": "trusted: exact dyadic comparison; float slack 4u x operand magnitude for Midpoint/Linear only",
        "design_ref": "DESIGN.md section 3 C19",
    },
    "C02": {
        "technique": "runtime monitoring: reference-model oracle over executions of the real selection code, with complete enumeration of small inputs and of all pivot sequences via the pivot hook",
        "level_text": _EXPL + "for inputs up to the length bound the space (weak-order patterns x requests x pivot sequences) is enumerated completely, which is as strong as monitoring can be for a comparison-only routine; beyond the bound seeded random cases. Not a proof for longer inputs.",
        "level_note": "trusted: std sort as reference, the pivot hook (additive, feature-gated), ndarray indexing; the small-scope argument (behaviour depends only on the weak-order pattern) is the property's own",
        "design_ref": "DESIGN.md section 3 C02",
    },
    "C15": {
        "technique": "runtime monitoring: post-condition oracle (rank, sides, multiset, guard cells) over exhaustively enumerated small inputs and seeded random inputs",
        "level_text": _EXPL + "all weak-order patterns up to the bound x all pivot positions x five strides are executed; partition_mut is deterministic so this is complete for that scope.",
        "level_note": "trusted: the harness's own index arithmetic for strided views (self-checked against ndarray at construction)",
        "design_ref": "DESIGN.md section 3 C15",
    },
    "C16": {
        "technique": "runtime monitoring: unwind observation (catch_unwind) of out-of-range and in-range calls under every pivot sequence, in two build profiles",
        "level_text": _EXPL + "the observation is the unwind bit; out-of-range calls are enumerated over all small inputs and all pivot sequences in both a release and a debug-assertion/overflow-check profile.",
        "level_note": "trusted: catch_unwind observes every panic (panic=unwind in both profiles); positions tested are {n, n+1, 2n+3, MAX/2+1, MAX-1, MAX}",
        "design_ref": "DESIGN.md section 3 C16",
    },
}
