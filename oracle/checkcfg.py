"""Per-property configuration of ./check: which driver stages decide it, the
evidence 'rule' text and the stated assumptions."""

COMMON_ASSUME = [
    "ndarray, noisy_float, indexmap, rand and the Rust standard library behave as documented (they are exercised, not judged)",
    "the pivot hook (cargo feature verif-hooks) only observes/replaces the drawn pivot position; with the feature off the crate is unchanged",
]

PROPS = {
    "C17": {
        "stages": [{"bin": "err"}],
        "rule": "decision table written from the statement: for every fallible public routine (7 single-input summary statistics + entropy on f64/f32/i32; min/max/argmin/argmax; 8 weighted routines; 10 deviation measures on f64 and i64; kl_divergence / cross_entropy; 5 quantile entry points on i32/N64/f64; pearson_correlation; cov; 5 strategies + GridBuilder) x first-input shapes {(4), (2,3), (3,1,2), (1), (0), (0,3), (3,0), (0,0), (2,0,3)} (+9 more in thorough) x second argument {same shape, same element count other shape, broadcast-compatible, one axis longer, different rank} in two layouts / per-axis weights of right and wrong length on every axis x q lists {valid, single, empty list, one < 0, one > 1, several invalid (first offending one carried), invalid on an empty axis, 1+2^-52, -0.0, +inf} x 3 layouts (8 thorough): expected cell in {Ok, EmptyInput, ShapeMismatch(first, second), InvalidQuantile(q)} or unconstrained (observed and counted, never judged: empty first input AND mismatching second argument for the sum-type routines; cov with zero observations and ddof >= 0; constant data for strategies; a zero-column matrix for GridBuilder). A second operand of another shape whose STRIDES equal those of the first (windows of parents with one row pitch). The rank-0 shape [] (one element) is one of the first shapes; all-NaN and all-None inputs for the skip-NaN quantile (the request is validated first); 4 layouts in the quick tier (C, contiguous F, stepped F, permuted), 8 in thorough. Second operands of another rank include shapes that are a prefix of / prefixed by the first shape (trailing unit axis appended, last axis dropped). Weight VALUES are varied too (all zero, +1/-1 with zero total, all one): a non-empty input never answers with an error. The table is enumerated completely; each cell is one distinct case (counted exactly); a panic in a constrained cell is a violation; weighted_sum / weighted_sum_axis of empty inputs must be zero.",
        "exhaustive": True,
        "exhaustive_bound": {"quick": "the full table for 9 first-input shapes x 3 layouts", "thorough": "18 first-input shapes x 8 layouts"},
        "assumptions": COMMON_ASSUME + ["combinations the statement does not decide are reported as unconstrained, not judged"],
    },
    "C20": {
        "stages": [{"kind": "oracle", "bin": "layout"}],
        "quick_profiles": ["release"],
        "rule": "differential monitor between the canonical representation (owned, C order, dynamic dimension) and a zoo variant of a logically equal array: layout = random axis permutation x per-axis step in {1,2,3} x direction x padding inside a guarded parent buffer; representation in {view_mut, owned-sliced, ArcArray with a second live handle (which must stay unchanged), CowArray borrowed (the lender must stay unchanged), CowArray owned, static-dimension view (Ix1..Ix3), owned-sliced as dynamic}. Routines: quantile(s)_axis_mut (5 strategies), quantile(s)_mut, get_from_sorted_mut, get_many_from_sorted_mut, partition_mut, min, max, argmin, argmax (index must designate an element equal to the canonical extremum), min/max/argmin/argmax_skipnan, fold / indexed_fold / fold_axis / map_axis_skipnan_mut, quantile_axis_skipnan_mut on i32, i64, u8, N64, f64, Option<i32>: results BIT-IDENTICAL; all 10 deviation measures, mean, weighted_sum, weighted_mean, weighted_sum_axis on i64 with BOTH operands varied independently, and with both operands taken as views of ONE buffer (same or different start, different steps, a square matrix against its transpose) against owned copies: identical; histogram counts and GridBuilder<Sqrt|Auto> grids for every observation-matrix layout: identical; float statistics (mean, harmonic/geometric mean, central moment(s), skewness, kurtosis, entropy, weighted sum/mean/var/std, sq_l2/l1/linf, cross-entropy, KL, cov, pearson): both results logged and each judged offline against the exact value with the section-4 bounds (so |A-B| <= 2 tol). distinct = hash of (family, type, shape, layout(s), representation(s), data).",
        "exhaustive": False,
        "assumptions": COMMON_ASSUME + ["ties may legitimately resolve to different indices: index results are compared through the element they designate"],
    },
    "C05": {
        "stages": [{"bin": "minmax"}],
        "rule": "linear-scan model on the logical snapshot: empty => EmptyInput; float data containing a NaN (any payload/sign, any position) => UndefinedOrder and only then; otherwise the value form returns an element <= (>=) every element, the index form returns an in-bounds index whose element equals the value form. Exhaustive part: ALL 1-D f64 arrays of length 0..6 (7 thorough) over {NaN, -inf, -0, +0, 1} in 3 layouts (each (array, layout) one distinct case, counted exactly; length >= 2 non-trivial). Random part: i32, u8, i64, f32, f64, N64; 0..4 dims incl. zero-length axes; zoo layouts; static (Ix0..Ix4), dynamic and owned-sliced arrays; NaN first/middle/last/several/all; ties, signed zeros, infinities, type extremes. distinct = hash of (type, shape, layout, mode, data bits).",
        "exhaustive": True,
        "exhaustive_bound": {"quick": "all f64 arrays of length <= 6 over a 5-value alphabet x 3 layouts", "thorough": "length <= 7"},
        "assumptions": COMMON_ASSUME,
    },
    "C06": {
        "stages": [{"kind": "oracle", "bin": "num"}],
        "rule": "floats (f32, f64): every call of mean / weighted_sum / weighted_mean / weighted_sum_axis / weighted_mean_axis / harmonic_mean / geometric_mean is logged (operand and result bit patterns in logical order) and judged offline: the exact value is recomputed with fractions.Fraction (ln via 60-digit decimal) and |result - exact| <= 4 x the a-priori forward error bound of %s (gamma_k * sum|terms|); harmonic mean judged in the reciprocal domain, geometric mean in the log domain; per-axis results are judged lane by lane (lane extracted by the harness's own index arithmetic) together with the whole-array routine applied to an owned copy of that lane. Data and weights always have DIFFERENT zoo layouts (pairing by logical index). Integers (i32, i64, in-process): exact i128 reference, the type's truncating division, per-axis element == exact lane value == whole-array routine on the lane. Data classes: uniform, cancelling signs, common offset 1e0..1e12, mixed magnitudes 1e+-8, positive, small integers, constant, large mean, mean of order one with spread 2^-30..2^-45, positive data within one decade around 10^e (|e| <= 100), positive data with independent magnitudes over 50 (f32) / 500 (f64) decades, data of order one with two tiny and two huge entries whose running product leaves the normal range and comes back (a harmonic mean of exactly zero is a violation unless the exact value or the sum of reciprocals leaves the exponent range); per-axis records also carry the whole-array routine applied to the lane VIEW as it lies in the array; weights: unit, random, 12 decades, with zeros. distinct = hash of (type, shape, axis, both layouts, data bits, weight bits); non-trivial = >= 2 elements." % "DESIGN.md section 4",
        "exhaustive": False,
        "assumptions": COMMON_ASSUME + ["a fault whose effect is below the stated tolerance is indistinguishable from roundoff and is not reported", "no intermediate underflow/overflow (generators keep magnitudes away from the exponent limits)"],
    },
    "C07": {
        "stages": [{"kind": "oracle", "bin": "num"}],
        "rule": "every call of weighted_var / weighted_std / their per-axis forms / central_moment(p<=8) / central_moments / skewness / kurtosis on f32 and f64 data is logged and judged offline against the definition evaluated in exact rationals: variance within 4 x the first-order forward error bound of the documented West recurrence (obtained by replaying the recurrence in exact arithmetic), std via r^2, central moments within 4(n+4p+8)u(1/n)sum(|x-mean|+2delta)^p, orders 0 and 1 exactly 1 and 0, skewness/kurtosis with propagated bounds in 60-digit decimals (skipped when the second moment is within its own bound of zero); per-axis forms lane by lane plus the whole-array routine on the owned lane. ddof in {0, 1, 1/4, 1/2}; weights >= 0 with positive total incl. leading and interior zeros; data with mean/spread up to 1e12 (f64) / 1e3 (f32); whole data sets rescaled by 10^+-3..8 (f32) / 10^+-20..70 (f64) (skewness / kurtosis skipped when the fourth moment leaves the exponent range either way); a late far observation carrying 0.3 u of the total weight. distinct as for C06.",
        "exhaustive": False,
        "assumptions": COMMON_ASSUME + ["a fault whose effect is below the stated tolerance is indistinguishable from roundoff and is not reported"],
    },
    "C08": {
        "stages": [{"kind": "oracle", "bin": "num"}],
        "rule": "cov(ddof) and pearson_correlation on 1..8 variables x 2..65 observations (f32, f64; C / F / random zoo layouts; uniform, offset, mixed-magnitude, integer, large-mean and linearly dependent rows; a quarter of the matrices rescaled per variable by 10^s, |s| <= 120 (f32: 14); ddof in {0, 1, 1/2, o-3/4}) are logged and judged offline entry by entry against the exact rational definition with the bound 4[(o+6)u sum(|xi-mi|+di)(|xj-mj|+dj) + o di dj]/(o-ddof); symmetry within 2 tol; diagonal >= -tol; correlation against cov/(sigma_i sigma_j) in 60-digit decimals with the propagated bound, diagonal 1 and |rho| <= 1 up to that bound; weakly correlated pairs constructed exactly (x, x^2 + 2^-e x: |rho| ~ 1e-9..1e-13, far above the roundoff of the definition); invariance under an EXACT positive affine rescaling (dyadic factor, integer-grid data) and sign flip under exact negation of one variable. distinct = hash of (type, shape, layout, data bits).",
        "exhaustive": False,
        "assumptions": COMMON_ASSUME + ["correlation entries are judged only for non-degenerate variables (variance > 4 x its own error bound)"],
    },
    "C09": {
        "stages": [{"kind": "oracle", "bin": "num"}],
        "rule": "integers (i8, i16, i32, i64, i128, num-bigint BigInt; in-process): count_eq / count_neq / sq_l2_dist / l1_dist / linf_dist equal the exact i128 values (a case with a difference that does not fit the type is skipped and counted; when only the sums of (squared) differences overflow - values over half the range of an 8..64-bit type, one case in seven - linf_dist and the counts are still judged), exactly symmetric, zero for identical arguments, derived measures equal the documented f64 function of the exact distance; operands in 6 memory layouts each (C, F, reversed, stepped, a window of columns, every other row), a quarter of the pairs in the same layout. Floats (f32, f64; logged, judged offline): sq_l2 / l1 within gamma_k * sum|terms|, linf EXACTLY the max of the correctly rounded |a-b|, l2 / mae / mse / rmse within 2 ulp of the documented function of the RETURNED distance, PSNR within 8u|r| + 40u/ln10, symmetry with swapped operands, counts exact, also for pairs carrying NaNs (NaN equals nothing) and for an array compared WITH ITSELF (same buffer); every pairing of 8 zoo layouts for the two operands (a fifth of the pairs share ONE non-contiguous layout with a unit inner stride: a window of columns, every other row) and 5 ownership pairings (view/view, owned/view, ArcArray/view, CowArray/owned, ViewMut/ArcArray); shapes of 1..4 dims. distinct = hash of (type, shape, layout pair, ownership, data).",
        "exhaustive": False,
        "assumptions": COMMON_ASSUME,
    },
    "C10": {
        "stages": [{"kind": "oracle", "bin": "num"}],
        "rule": "entropy / cross_entropy / kl_divergence on f32 and f64 arrays of 1..3 dims (p and q in different zoo layouts, q owned or view) are logged and judged offline: terms -x ln x, -p ln q, -p ln(q/p) in 60-digit decimals, zero-p terms exactly zero (even against NaN in q), tol = 4[(n+8)u sum|t_i| + 4u sum|p_i|]; q = 0 with p > 0 => +inf; NaN in a contributing term => NaN; KL(p,p) == 0 exactly; |H(p,q) - H(p) - KL(p,q)| <= sum of tolerances; KL >= P ln(P/Q) - tol and H <= -X ln(X/n) + tol (log-sum inequality). Values in [1e-30, 1e3] (f32: [1e-20, 1e3]), zeros in p / q / both, normalised and unnormalised, q ~ p; positive SUBNORMAL p_i against q_i = 0 (must still give +inf); quotients q_i/p_i outside the exponent range and quotients that are subnormal but not zero (known finding F9, classified by the oracle's predicate: a finite inaccurate answer there is F9; an INFINITE answer is F9 only when a quotient really rounds to zero or overflows). distinct = hash of (type, shape, layouts, p bits, q bits).",
        "exhaustive": False,
        "assumptions": COMMON_ASSUME + ["ln of the platform libm is accurate to about 1 ulp (covered by the safety factor 4)"],
    },
    "C11": {
        "stages": [{"bin": "hist"}],
        "rule": "history monitor: a model histogram (map index tuple -> count; the cell of an observation found by a LINEAR scan e_i <= v < e_{i+1} over each axis's sorted distinct edges, independent of the crate's binary search) is updated per accepted insert and compared with the WHOLE counts() array after EVERY add_observation: Ok iff the model finds a cell, counts equal the model everywhere (a rejected insert changed nothing), shape == per-axis bin counts, sum of counts == accepted inserts. Matrix form histogram(): equals the model of its rows for C / F / stepped / reversed / random zoo layouts of the observation matrix and for permuted rows. Exhaustive part: 1 and 2 axes, every subset of edges {0,2,4,6} per axis (zero-bin axes included), every observation in {below, each edge, each midpoint, above}^d fed as one history (each insert = one distinct case). Every history builds each axis through one of four Edges constructors (From<Vec>, From<Array1>, From<Array1> of an owned stepped slice / of an owned offset+reversed slice of a larger buffer with guard cells). Random part: 1..3 axes, 0..6 unsorted duplicated edges per axis, histories of 1..200 inserts mixing accepted and rejected points, i32 and N64; axes with 60..210 edges driven by local moves, far jumps and rejected points (per-insert comparison), and observation matrices of 4096..9000 rows in C / F / random layouts (matrix form). distinct = hash of (type, edges, history).",
        "exhaustive": True,
        "exhaustive_bound": {"quick": "d <= 2, <= 4 edges per axis, all single observations over the candidate set", "thorough": "same exhaustive part, 1M random histories"},
        "assumptions": COMMON_ASSUME,
    },
    "C12": {
        "stages": [{"bin": "hist"}],
        "rule": "for each generated 1-D data set (i32, i64, u16, usize, N64; n in {0,1,2,3,5,10,31,100,333,1000,(10^4)}; classes: i*0.1, k/100, 1e6+k*0.01, 1+{0,1,2}eps, heavy ties/zero IQR, sign-crossing, magnitudes 1e+-6, i*0.001, mixed magnitudes; integer: small range, range 10n, wide, 7 levels, rounded normal) and each of the 5 strategies: empty => EmptyInput, constant => Strategy, other rejections must be Strategy and are not allowed when range/n_bins is a positive width (ints: range >= 2n; floats: any non-constant, except FreedmanDiaconis); accepted => first edge == min exactly, last edge > max, last - max <= width (+4ulp(M) floats), all bin widths == bin_width() (ints exactly, floats within 4ulp(M) when width >= 4ulp(M)), every observation has a bin, n_bins() == bins built, a histogram over the GridBuilder grid (1..3 columns, C/F/random layout) counts all n. TERMINATION is a logical-step bound: the strategy is instantiated with a counting element type and from_array / n_bins / build must finish within a budget of element operations derived from n and the expected bin count (a hang becomes a violation independent of machine load). Integer classes include adjacent heavy levels (inter-quartile range 1 or 2 with n >= 27, where the integer Freedman-Diaconis width truncates to zero and the data must be rejected). Section fd_many_bins: a tight cluster plus two far outliers under FreedmanDiaconis / Auto (i32, i64, N64; 7*10^4 .. 1.8*10^5 bins). distinct = hash of (type, data bits); non-trivial = n >= 2. Data sets whose own parameters imply > 2*10^5 bins are counted as skipped.",
        "exhaustive": False,
        "assumptions": COMMON_ASSUME + ["integer data is kept far from the type's limits (stated in the property)", "float geometry is judged with tolerance 4 ulp at magnitude max(|min|, |last edge|)"],
    },
    "C13": {
        "stages": [{"bin": "hist"}],
        "rule": "exhaustive: ALL sequences of length 0..5 (6 thorough) over {0..5} as edge collections (i32 with doubled values so half-way probes are integers, N64 genuinely, Tracked keys in thorough), built via From<Vec> and From<Array1>, x probes {-1, -1/2, 0, 1/2, ..., 6}: Edges::{len,is_empty,iter,index,as_array_view,indices_of}, Bins::{len,is_empty,index,index_of,range_of} against a BTreeSet / linear-scan model and against each other (range_of(v) == index(index_of(v))). Each edge sequence of length >= 2 is one distinct non-trivial case (counted exactly). Every probe list is asked ascending, descending and in two scrambled orders on the SAME object (a lookup must not depend on earlier lookups). Random part: grids of 1..3 axes: ndim/shape/projections, Grid::index for ALL index tuples, Grid::index_of for points inside every cell and random points, points handed over as owned, reversed and stepped views; edge collections of 5..200 edges with EVERY ordered pair of probes (below / on edges / strictly inside bins / above) on one object; long edge collections increasing / decreasing / shuffled with repeated values next to their twins; grids whose number of cells does not fit a machine word (40..100 axes of 2..3 bins, 4 axes of 65 536 bins, 5..8 axes of 2^9..2^14 bins): shape, index and index_of per axis.",
        "exhaustive": True,
        "exhaustive_bound": {"quick": "all edge sequences of length <= 5 over 6 values x 15 probes", "thorough": "length <= 6"},
        "assumptions": COMMON_ASSUME + ["only comparisons are used by Edges/Bins (stated in the property), so a 6-value alphabet covers all order patterns up to the length bound"],
    },
    "C03": {
        "stages": [{"bin": "mem"},
                   {"kind": "sanitizer", "tool": "asan", "tiers": ["quick", "thorough"]},
                   {"kind": "sanitizer", "tool": "miri", "tiers": ["thorough"]},
                   {"kind": "sanitizer", "tool": "memcheck", "tiers": ["thorough"]}],
        "rule": "shadow-buffer monitor: the array is a view (steps, reversed / permuted axes, offset) into a larger parent buffer whose other cells hold guard values; the parent is snapshotted bit for bit before the call and compared after: guard cells identical, every lane holds the same multiset of (unique) cell values, erroring calls change nothing, a second ArcArray handle is unchanged. Routines: partition_mut / get_from_sorted_mut / get_many_from_sorted_mut / quantile_mut / quantiles_mut on one lane of an n-D array (all other lanes must stay bit-identical), quantile_axis_mut / quantiles_axis_mut (valid and invalid q), quantile_axis_skipnan_mut, map_axis_skipnan_mut with a closure that rewrites its lane, remove_nan_mut over all masks up to length 8; element types Tracked (unique ids), f32, f64, Option<u8,i32,i64,N64>; 1..4 dims, every axis, 5 pivot policies. Section owned_arrays: quantile(s)_axis_mut on OWNED and SHARED arrays that are slices of a larger buffer, judged through the array the caller holds afterwards (shape, axis order, every lane; an erroring call - invalid q, empty axis - changes nothing). Dense request lists (nearly every rank of a long lane, scrambled, several lanes). Bulk requests are handed over as an owned array, a reversed view or a stepped view. Element lifecycle monitor (section owned_elems), with FAULT INJECTION - in a third of its cases the k-th comparison of the element type panics, the call is left by unwinding and the same monitors judge what it leaves behind: the same routines on an element type that owns a resource (Drop, not Copy), every value registered under a unique id in a table of live values: an element dropped twice, or cloned / compared after its drop, is a violation (element_lifecycle); key multisets per lane and guard cells as above. distinct = hash of (routine, shape, axis, layout, data); non-trivial = lane length >= 2.",
        "exhaustive": False,
        "assumptions": COMMON_ASSUME + ["writes outside the parent buffer are invisible to the shadow monitor; they are the business of the ASan / Miri / memcheck stages"],
    },
    "C04": {
        "stages": [{"bin": "mem"},
                   {"kind": "sanitizer", "tool": "miri", "tiers": ["quick", "thorough"]},
                   {"kind": "sanitizer", "tool": "asan", "tiers": ["quick", "thorough"]},
                   {"kind": "sanitizer", "tool": "memcheck", "tiers": ["thorough"]}],
        "rule": "exhaustive part: ALL missing/non-missing masks of length 0..10 x 18 (stride, offset) pairs with strides {1,2,3,-1,-2,-3} x 14 element types (f32, f64, Option of u8..u128, i8..i128, N32, N64); each (type, mask, layout) is one distinct case, counted exactly (length >= 2 = non-trivial). Monitors per call: returned length == number of non-missing inputs; every element ADDRESS of the returned view is an element address of the argument view (checked before anything is read through it); no missing value in the view's memory (read as the underlying type from the parent buffer); multiset == non-missing inputs; iteration through the NotNan-typed view yields the same values; lane multiset incl. missing values and guard cells unchanged; determinism (two identical inputs, same view); idempotence (second application leaves the sequence unchanged); is_nan / try_as_not_nan agree with the representation. Random part: masks of length 11..70 (a third of them a few values, one long run of missing / present values, a few values), strides up to +-7; lanes handed out by map_axis_skipnan_mut along every axis of 1..3-D zoo arrays (address set of the handed-out view must lie inside exactly one lane).",
        "exhaustive": True,
        "exhaustive_bound": {"quick": "all masks of length <= 10 x 18 stride/offset pairs x 14 element types", "thorough": "same, plus 200k longer random masks, 600k n-D lane cases and two f32 lanes of 2^31+5 and 2^32+3 elements (release profile, when memory allows)"},
        "assumptions": COMMON_ASSUME + ["behaviour depends only on the missing/non-missing pattern (stated in the property)"],
    },
    "C14": {
        "stages": [{"bin": "mem"},
                   {"kind": "sanitizer", "tool": "asan", "tiers": ["quick", "thorough"]},
                   {"kind": "sanitizer", "tool": "miri", "tiers": ["thorough"]}],
        "rule": "reference = the statement's own definition: the harness deletes the missing values from the logical snapshot itself and (a) scans the rest independently, (b) calls the crate's plain routine on an owned contiguous copy of the filtered data. Operations: min/max_skipnan, argmin/argmax_skipnan (index designates a position of the original array holding the value; EmptyInput iff nothing is left), fold_skipnan / visit_skipnan / indexed_fold_skipnan (multiset of (index,) value == filtered multiset), fold_axis_skipnan and map_axis_skipnan_mut (per lane, each lane exactly once, result at the lane's logical index), quantile_axis_skipnan_mut vs quantile_mut on the filtered lane (all 5 strategies, q on / between indices). The per-axis fold is also compared as a SEQUENCE (order-sensitive closure: increasing index along the axis, like the plain fold_axis). Lanes of 18..60 made of a few values, a long run of missing values and a few values. Requests also on the rank grid j/(m-1), (j+.5)/(m-1) of one lane's REMAINING count m; arrays without lanes (a zero-length axis other than the reduced one). Types f32, f64, Option<i32,u8,i64,N64>; masks none / all / first-only / last-only / random / ties; 1..3 dims, every axis, zoo layouts, 5 pivot policies. distinct = hash of (type, shape, axis, layout, data bits); non-trivial = >= 2 elements.",
        "exhaustive": False,
        "assumptions": COMMON_ASSUME,
    },
    "C01": {
        "stages": [{"bin": "quant"}],
        "rule": "random part: element types i8,u8,i16,i32,i64,u64,usize,N32,N64 (round robin); 1..4 dims, every axis, lane length 1..40 (1-D to 300), zoo layouts (steps, reversed, permuted axes, offset in a guarded parent), static and dynamic dimensionality; contents: tiny alphabets (heavy ties), constant, sorted, reversed, organ pipe, type extremes, wide random; q in {0, 1, k/(N-1) and its float neighbours, (k+.5)/(N-1) and neighbours, up to 8 ulps around, 5e-324, 1-2^-53, uniform}; all five strategies; entry points quantile(s)_axis_mut and quantile(s)_mut; every case executed 3 times under different pivot policies (determinism). 3 % of the cases are arrays WITHOUT lanes (a zero-length axis other than the reduced one: the result must be the empty array of the documented shape); bulk request lists also sorted ascending / descending and with several requests inside one rank gap. Oracle: sort the lane, index pair and fraction in two readings (f64 product and exact rational product, exact dyadic arithmetic), strategy-specific acceptance. distinct = hash of (type, shape, axis, layout, entry, strategy, q bits, data bits), non-trivial = lane length >= 2 and >= 1 q. Exhaustive part: all weak-order patterns of length <= 4 (5 thorough) x q grid x 5 strategies x ALL pivot sequences for i32, u8, N64.",
        "exhaustive": False,
        "assumptions": COMMON_ASSUME + ["'(N-1)q' is read either as the f64 product or as the exact rational product; a result matching either reading is accepted", "Linear on 64-bit integers is judged only when |lower|,|higher| < 2^52 (stated in the property)"],
    },
    "C18": {
        "stages": [{"bin": "quant"}, {"kind": "oracle", "bin": "num"}],
        "rule": "differential monitor between two executions of the real code on equal inputs (fresh embeddings, independent pivot policies): slice j of quantiles_axis_mut / quantiles_mut vs quantile_axis_mut / quantile_mut for q_j (request lists of length 0..32, unordered, with repeats, q sharing / straddling an index, 9 element types, 5 strategies, zoo layouts, every axis); get_many_from_sorted_mut(I)[i] vs get_from_sorted_mut(i) for request lists of length 0..32 on strided views; central_moments(p)[k] vs central_moment(k) BIT FOR BIT for all k <= p <= 10 (f32, f64, zoo layouts); each element of weighted_sum_axis / weighted_mean_axis / weighted_var_axis / weighted_std_axis vs the whole-array routine on an owned copy of that lane (both judged against the exact value by the offline oracle, bit-identical pairs counted). Request lists also sorted ascending / descending, and dense (every rank of the lane, scrambled); arrays without lanes (shape of the empty result); the per-axis weighted family additionally BIT FOR BIT against the whole-array routine applied to the lane view for mixed-sign weights and for a single effective observation (one non-zero weight, possibly equal to ddof). distinct = hash of (type, shape, axis, layout, strategy, q bits / request, data); non-trivial = >= 2 requests on a lane of length >= 2.",
        "exhaustive": False,
        "assumptions": COMMON_ASSUME,
    },
    "C19": {
        "stages": [{"bin": "quant"}],
        "rule": "metamorphic monitor (no oracle) on 1-D lanes of 9 element types in zoo layouts: per lane a dense q grid (0, 1, 6 random k/(N-1) and (k+.5)/(N-1) with neighbours at 1, 2, 8 ulps, uniform) evaluated for all 5 strategies; relations: monotone in q, min at 0 / max at 1 / within [min,max], Lower <= {Nearest, Midpoint, Linear} <= Higher, all equal when (N-1)q is integral (exactly and in f64), invariance under ALL permutations for N <= 6 (12 sampled above), commutation with a strictly increasing relabelling for Lower/Higher/Nearest. Float Midpoint/Linear relations allow 4u x operand magnitude. distinct = hash of (type, layout, data bits); non-trivial = N >= 2.",
        "exhaustive": False,
        "assumptions": COMMON_ASSUME + ["for float interpolation 'one unit in the last place' is taken at the magnitude of the interpolated operands (bounded by the lane's extreme magnitude where no oracle is available)"],
    },
    "C02": {
        "stages": [{"bin": "sel"}],
        "rule": "exhaustive part: every weak-order pattern of length 1..L (L=7 quick, 8 thorough; strided views and bulk form to smaller L) x every in-range index / every non-empty index subset in 3 presentations x EVERY pivot sequence (enumerated through the pivot hook by depth-first replay); each (pattern, request, pivot sequence) execution with n>=2 is one distinct non-trivial case (counted exactly). Random part: lengths up to 300, heavy ties, sorted / reversed / organ-pipe lanes and lanes sorted except for one element out of place or rotated, strides in {1,2,3,-1,-2,-3}, 6 pivot policies; distinct = hash of (keys, request, layout, pivot log). Empty requests on arrays of length 0..11. Every bulk request is handed over in one of three representations of the REQUEST array (owned contiguous, reversed view, every second cell of a larger buffer). Section owned_elems: the same entry points on an element type that owns a resource (Drop, not Copy) under the element lifecycle monitor (no element dropped twice, none cloned or compared after its drop). Oracle: std sort of the snapshot + post-condition + multiset-by-id + guard cells.",
        "exhaustive": True,
        "exhaustive_bound": {"quick": "patterns n<=7 single (n<=5 strided, n<=5 bulk), all pivot sequences", "thorough": "patterns n<=8 single (n<=6 strided, n<=6 bulk), all pivot sequences"},
        "assumptions": COMMON_ASSUME + ["behaviour of a comparison-only generic routine depends only on the weak-order pattern of the input (stated in the property)"],
    },
    "C15": {
        "stages": [{"bin": "sel"}],
        "rule": "exhaustive part: every weak-order pattern of length 1..L (L=7 quick, 8 thorough) x every pivot position x strides {1,2,3,-1,-2} (strided up to length 6) inside a guarded parent buffer; each (pattern, position, stride) is one distinct case, counted exactly. Random part: lengths up to 500, and 513..2100 (sorted, reversed, rotated, one element out of place included); other element types: i32, u8, N64, the NotNone<i32> wrapper obtained from Option<i32>::remove_nan_mut,, zero-sized elements, a 48-byte element ordered by one field (plain and strided), an element that owns a resource (Drop, not Copy; with the element lifecycle monitor), i32 in a shared ArcArray with a second live handle and in a CowArray borrowing a view (the other handle / the lender must stay unchanged); distinct = hash of (keys, position, layout). Oracle: rank = #{x < pivot}, position k holds the pivot value, strict left side, >= right side, multiset by id, guards.",
        "exhaustive": True,
        "exhaustive_bound": {"quick": "patterns n<=7", "thorough": "patterns n<=8"},
        "assumptions": COMMON_ASSUME,
    },
    "C16": {
        "stages": [{"bin": "sel"}],
        "rule": "out-of-range: every weak-order pattern of length 0..L (L=6 quick, 7 thorough) x positions {n, n+1, 2n+3, MAX/2+1, MAX-1, MAX} x EVERY pivot sequence for single selection; bulk requests with an out-of-range member alone / repeated / first / last / mixed, each handed over as an owned array, a reversed view and a stepped view of a larger buffer; request lists of 64..160 entries on arrays of 0..13 elements with 1..all entries out of range (and their in-range twins); partition on plain, stepped and reversed views; Edges/Bins/Grid with 0..6 edges per axis (1..3 axes), every single out-of-range coordinate (n, n+1, MAX-k for k <= 9, isize::MAX-1 .. isize::MAX+2, 2^63+n, 2^32, 2^32+1) and wrong arity. Call histories on one thread: a request (or index) accepted for a longer array must be rejected for a shorter one immediately afterwards, twice in a row; an empty request on an empty array must not panic. In-range: the C02/C15 exhaustive workloads replayed with only the unwind bit observed, plus every in-range Edges/Bins/Grid position. Both build profiles (release; checked = debug assertions + overflow checks). Each (input, position, pivot sequence) is a distinct case, counted exactly.",
        "exhaustive": True,
        "exhaustive_bound": {"quick": "patterns n<=6", "thorough": "patterns n<=7"},
        "assumptions": COMMON_ASSUME + ["'panics' is observed as an unwind caught by catch_unwind (both profiles are built with panic=unwind)"],
    },
}

SANITIZER_STAGES = {}

_EXPL = "exploration: the real code is executed and every execution is judged by an independent oracle; "
MANIFEST_TEXT = {
    "C17": {
        "technique": "runtime monitoring: decision-table oracle (written from the statement) over the complete enumeration of routine x shape x second-argument x q-list x layout cells, each executed on the real code",
        "level_text": _EXPL + "the table is finite and enumerated completely for the listed shapes; the observation is the Ok/Err variant and its payload.",
        "level_note": "trusted: the table itself (err.rs), reviewed against the property statement and API docs",
        "design_ref": "DESIGN.md section 3 C17",
    },
    "C20": {
        "technique": "runtime monitoring: representation differential (canonical vs zoo variant, both executions of the real code), bit-exact for order-based/integer results, offline exact oracle for float sums; ownership side conditions (second ArcArray handle, CowArray lender) monitored",
        "level_text": _EXPL + "every public routine family is driven through 7 representations and random zoo layouts.",
        "level_note": "trusted: ndarray's conversions between ownership kinds; the harness's layout embedding (self-checked)",
        "design_ref": "DESIGN.md section 3 C20",
    },
    "C05": {
        "technique": "runtime monitoring: linear-scan reference model over executions of min/max/argmin/argmax, exhaustive for short arrays over a NaN/inf/signed-zero alphabet",
        "level_text": _EXPL + "complete for 1-D f64 arrays up to the length bound over the 5-value alphabet; seeded generation for n-D, layouts and other element types.",
        "level_note": "trusted: partial order of the primitive types; NaN recognised from the bit pattern",
        "design_ref": "DESIGN.md section 3 C05",
    },
    "C06": {
        "technique": "runtime monitoring: offline exact oracle (rational arithmetic + a-priori forward error bounds) over a recorded event log of calls of the real code; exact i128 reference model for integers",
        "level_text": _EXPL + "decided up to an explicit tolerance that is an exact rational computed from the operands; evidence reports the closest approach to each bound.",
        "level_note": "trusted: python fractions/decimal; the bound formulas of DESIGN.md section 4 (calibrated, safety factor 4)",
        "design_ref": "DESIGN.md section 3 C06, section 4.1-4.2",
    },
    "C07": {
        "technique": "runtime monitoring: offline exact oracle over the event log; the West recurrence is replayed in exact arithmetic to obtain its own forward error bound",
        "level_text": _EXPL + "the bound follows the documented algorithm, so any implementation of it passes while errors that scale with |mean|/spread beyond it are caught.",
        "level_note": "trusted: python fractions/decimal; bounds of DESIGN.md section 4.3-4.4",
        "design_ref": "DESIGN.md section 3 C07",
    },
    "C08": {
        "technique": "runtime monitoring: offline exact oracle over the event log (entrywise bounds, symmetry, range, exact-transform invariances)",
        "level_text": _EXPL + "every matrix entry is judged against the rational definition.",
        "level_note": "trusted: python fractions/decimal; bound of DESIGN.md section 4.5 (includes the second-order mean term)",
        "design_ref": "DESIGN.md section 3 C08",
    },
    "C09": {
        "technique": "runtime monitoring: exact integer reference model in-process (i128 / BigInt) and offline exact oracle for floats, over all pairings of layouts and ownership kinds",
        "level_text": _EXPL + "integer results are compared exactly; float distances up to gamma_k bounds, linf exactly.",
        "level_note": "trusted: i128 arithmetic, python fractions",
        "design_ref": "DESIGN.md section 3 C09",
    },
    "C10": {
        "technique": "runtime monitoring: offline oracle in 60-digit decimal arithmetic over the event log, plus identities between returned values",
        "level_text": _EXPL + "special values (zero terms, +inf, NaN propagation) are decided symbolically, finite values up to the stated bound.",
        "level_note": "trusted: python decimal ln at 60 digits",
        "design_ref": "DESIGN.md section 3 C10",
    },
    "C11": {
        "technique": "runtime monitoring: history monitor - model histogram (linear-scan bin model) compared with the full counts array after every insert of every history; conservation and order-independence checks; matrix form in zoo layouts",
        "level_text": _EXPL + "all single-observation placements are enumerated for small grids; longer mixed accept/reject histories are seeded random.",
        "level_note": "trusted: the linear-scan model (15 lines), BTreeSet for distinct sorted edges",
        "design_ref": "DESIGN.md section 3 C11",
    },
    "C12": {
        "technique": "runtime monitoring: bin-geometry oracle on executions of the real strategies plus a logical-step termination monitor (counting element type with an operation budget)",
        "level_text": _EXPL + "data classes target the float representability and small-width corners; termination is observed in element operations, not wall-clock time.",
        "level_note": "trusted: bin_width() as the advertised width; tolerance 4 ulp for float geometry",
        "design_ref": "DESIGN.md section 3 C12",
    },
    "C13": {
        "technique": "runtime monitoring: reference-model oracle (BTreeSet + linear scan) over exhaustively enumerated edge collections and probes; mutual-agreement checks between Edges, Bins and Grid accessors",
        "level_text": _EXPL + "complete for all edge sequences up to the length bound over a 6-value alphabet.",
        "level_note": "trusted: BTreeSet, linear scan",
        "design_ref": "DESIGN.md section 3 C13",
    },
    "C03": {
        "technique": "runtime monitoring: shadow-buffer monitor (bit snapshot of the parent allocation before/after, guard cells, per-lane multisets of unique cells) around every mutating routine; element lifecycle monitor for resource-owning elements; AddressSanitizer / Miri / memcheck on the same driver for writes outside the buffer",
        "level_text": _EXPL + "what is observed is the raw parent buffer, read by the harness's own index arithmetic, not through ndarray iterators.",
        "level_note": "trusted: the harness's logical-index map (self-checked against ndarray at construction); cells are unique so movement between lanes is visible even among ties",
        "design_ref": "DESIGN.md section 3 C03",
    },
    "C04": {
        "technique": "runtime monitoring: address-subset + raw-memory monitors over all missing-value masks up to length 10 for 14 element types and 18 stride/offset layouts, plus Miri / AddressSanitizer / valgrind memcheck runs of the same driver",
        "level_text": _EXPL + "complete for the stated mask bound; the sanitizer stages see what return values cannot (out-of-bounds, dangling, invalid references, unreachable_unchecked reached).",
        "level_note": "trusted: pointer arithmetic of the harness (addresses compared before any read through the returned view, so the monitor cannot commit the UB it looks for)",
        "design_ref": "DESIGN.md section 3 C04",
    },
    "C14": {
        "technique": "runtime monitoring: differential monitor filter-then-plain-routine (the property's own definition) plus an independent scan, over executions of the real skip-NaN routines",
        "level_text": _EXPL + "both sides are executed on every generated case; equality is bit-exact.",
        "level_note": "trusted: the plain routines are judged by C01/C05, here they serve as the reference the statement names",
        "design_ref": "DESIGN.md section 3 C14",
    },
    "C01": {
        "technique": "runtime monitoring: reference-model oracle (sort + exact dyadic arithmetic for index/fraction/interpolation) over executions of the real quantile code; determinism monitor across pivot policies; all pivot sequences for short lanes",
        "level_text": _EXPL + "seeded generation over element types, dimensionalities, axes, layouts, q classes around every index boundary and all strategies, plus complete pivot-sequence enumeration for lanes up to length 4/5.",
        "level_note": "trusted: std sort, num-bigint for the exact dyadic arithmetic, the harness's logical-index map (self-checked); float tolerance 8u*max(|lo|,|hi|)",
        "design_ref": "DESIGN.md section 3 C01",
    },
    "C18": {
        "technique": "runtime monitoring: differential monitor between bulk and single-item executions of the real code (quantiles, selection; moments and per-axis weighted statistics via the numeric event log)",
        "level_text": _EXPL + "both sides are the real code on cloned inputs under independent pivot policies; equality is bit-exact for order statistics.",
        "level_note": "trusted: nothing beyond ndarray indexing of the two results",
        "design_ref": "DESIGN.md section 3 C18",
    },
    "C19": {
        "technique": "runtime monitoring: metamorphic relations between executions of the real quantile code (no reference model)",
        "level_text": _EXPL + "relations need no oracle and therefore also cover inputs where an oracle would share a misreading of the definition.",
        "level_note": "trusted: exact dyadic comparison; float slack 4u x operand magnitude for Midpoint/Linear only",
        "design_ref": "DESIGN.md section 3 C19",
    },
    "C02": {
        "technique": "runtime monitoring: reference-model oracle over executions of the real selection code, with complete enumeration of small inputs and of all pivot sequences via the pivot hook; element lifecycle monitor (clone/drop/compare events of a resource-owning element type)",
        "level_text": _EXPL + "for inputs up to the length bound the space (weak-order patterns x requests x pivot sequences) is enumerated completely, which is as strong as monitoring can be for a comparison-only routine; beyond the bound seeded random cases. Not a proof for longer inputs.",
        "level_note": "trusted: std sort as reference, the pivot hook (additive, feature-gated), ndarray indexing; the small-scope argument (behaviour depends only on the weak-order pattern) is the property's own",
        "design_ref": "DESIGN.md section 3 C02",
    },
    "C15": {
        "technique": "runtime monitoring: post-condition oracle (rank, sides, multiset, guard cells) over exhaustively enumerated small inputs and seeded random inputs; element lifecycle monitor and shared-storage observers for other element / ownership kinds",
        "level_text": _EXPL + "all weak-order patterns up to the bound x all pivot positions x five strides are executed; partition_mut is deterministic so this is complete for that scope.",
        "level_note": "trusted: the harness's own index arithmetic for strided views (self-checked against ndarray at construction)",
        "design_ref": "DESIGN.md section 3 C15",
    },
    "C16": {
        "technique": "runtime monitoring: unwind observation (catch_unwind) of out-of-range and in-range calls under every pivot sequence, in two build profiles",
        "level_text": _EXPL + "the observation is the unwind bit; out-of-range calls are enumerated over all small inputs and all pivot sequences in both a release and a debug-assertion/overflow-check profile.",
        "level_note": "trusted: catch_unwind observes every panic (panic=unwind in both profiles); positions tested are {n, n+1, 2n+3, MAX/2+1, MAX-1, MAX}",
        "design_ref": "DESIGN.md section 3 C16",
    },
}
