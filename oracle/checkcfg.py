"""Per-property configuration of ./check: which driver stages decide it, the
evidence 'rule' text and the stated assumptions."""

COMMON_ASSUME = [
    "ndarray, noisy_float, indexmap, rand and the Rust standard library behave as documented (they are exercised, not judged)",
    "the pivot hook (cargo feature verif-hooks) only observes/replaces the drawn pivot position; with the feature off the crate is unchanged",
]

PROPS = {
    "C02": {
        "stages": [{"bin": "sel"}],
        "rule": "exhaustive part: every weak-order pattern of length 1..L (L=7 quick, 8 thorough; strided views and bulk form to smaller L) x every in-range index / every non-empty index subset in 3 presentations x EVERY pivot sequence (enumerated through the pivot hook by depth-first replay); each (pattern, request, pivot sequence) execution with n>=2 is one distinct non-trivial case (counted exactly). Random part: lengths up to 300, heavy ties, strides in {1,2,3,-1,-2,-3}, 6 pivot policies; distinct = hash of (keys, request, layout, pivot log). Oracle: std sort of the snapshot + post-condition + multiset-by-id + guard cells.",
        "exhaustive": True,
        "exhaustive_bound": {"quick": "patterns n<=7 single (n<=5 strided, n<=5 bulk), all pivot sequences", "thorough": "patterns n<=8 single (n<=6 strided, n<=6 bulk), all pivot sequences"},
        "assumptions": COMMON_ASSUME + ["behaviour of a comparison-only generic routine depends only on the weak-order pattern of the input (stated in the property)"],
    },
    "C15": {
        "stages": [{"bin": "sel"}],
        "rule": "exhaustive part: every weak-order pattern of length 1..L (L=7 quick, 8 thorough) x every pivot position x strides {1,2,3,-1,-2} (strided up to length 6) inside a guarded parent buffer; each (pattern, position, stride) is one distinct case, counted exactly. Random part: lengths up to 500; distinct = hash of (keys, position, layout). Oracle: rank = #{x < pivot}, position k holds the pivot value, strict left side, >= right side, multiset by id, guards.",
        "exhaustive": True,
        "exhaustive_bound": {"quick": "patterns n<=7", "thorough": "patterns n<=8"},
        "assumptions": COMMON_ASSUME,
    },
    "C16": {
        "stages": [{"bin": "sel"}],
        "rule": "out-of-range: every weak-order pattern of length 0..L (L=6 quick, 7 thorough) x positions {n, n+1, 2n+3, MAX/2+1, MAX-1, MAX} x EVERY pivot sequence for single selection; bulk requests with an out-of-range member alone / repeated / first / last / mixed; partition on plain, stepped and reversed views; Edges/Bins/Grid with 0..6 edges per axis (1..3 axes), every single out-of-range coordinate and wrong arity. In-range: the C02/C15 exhaustive workloads replayed with only the unwind bit observed, plus every in-range Edges/Bins/Grid position. Both build profiles (release; checked = debug assertions + overflow checks). Each (input, position, pivot sequence) is a distinct case, counted exactly.",
        "exhaustive": True,
        "exhaustive_bound": {"quick": "patterns n<=6", "thorough": "patterns n<=7"},
        "assumptions": COMMON_ASSUME + ["'panics' is observed as an unwind caught by catch_unwind (both profiles are built with panic=unwind)"],
    },
}

SANITIZER_STAGES = {}

_EXPL = "exploration: the real code is executed and every execution is judged by an independent oracle; "
MANIFEST_TEXT = {
    "C02": {
        "technique": "runtime monitoring: reference-model oracle over executions of the real selection code, with complete enumeration of small inputs and of all pivot sequences via the pivot hook",
        "level_text": _EXPL + "for inputs up to the length bound the space (weak-order patterns x requests x pivot sequences) is enumerated completely, which is as strong as monitoring can be for a comparison-only routine; beyond the bound seeded random cases. Not a proof for longer inputs.",
        "level_note": "trusted: std sort as reference, the pivot hook (additive, feature-gated), ndarray indexing; the small-scope argument (behaviour depends only on the weak-order pattern) is the property's own",
        "design_ref": "DESIGN.md section 3 C02",
    },
    "C15": {
        "technique": "runtime monitoring: post-condition oracle (rank, sides, multiset, guard cells) over exhaustively enumerated small inputs and seeded random inputs",
        "level_text": _EXPL + "all weak-order patterns up to the bound x all pivot positions x five strides are executed; partition_mut is deterministic so this is complete for that scope.",
        "level_note": "trusted: the harness's own index arithmetic for strided views (self-checked against ndarray at construction)",
        "design_ref": "DESIGN.md section 3 C15",
    },
    "C16": {
        "technique": "runtime monitoring: unwind observation (catch_unwind) of out-of-range and in-range calls under every pivot sequence, in two build profiles",
        "level_text": _EXPL + "the observation is the unwind bit; out-of-range calls are enumerated over all small inputs and all pivot sequences in both a release and a debug-assertion/overflow-check profile.",
        "level_note": "trusted: catch_unwind observes every panic (panic=unwind in both profiles); positions tested are {n, n+1, 2n+3, MAX/2+1, MAX-1, MAX}",
        "design_ref": "DESIGN.md section 3 C16",
    },
}
