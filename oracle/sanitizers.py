"""Sanitizer stages (Miri / AddressSanitizer / valgrind memcheck) of the memory driver."""


def setup(root, harness, log):
    return 0


def run_stage(stage, root, harness, prop, tier, seed, ncpu, log):
    return {"summaries": [], "report": {"tool": stage.get("tool"), "status": "not built yet"}, "inconclusive": []}
