"""Sanitizer stages of the memory driver `mem`: Miri (UB interpreter), AddressSanitizer
(nightly -Zsanitizer=address) and valgrind memcheck.  Each stage runs the same driver binary
(same monitors) on a workload sized for the tool and turns a tool report into a violation;
a tool that cannot run is reported as inconclusive, never as a violation."""
import json
import os
import re
import subprocess
import time

ENV = dict(os.environ)
ENV["CARGO_NET_OFFLINE"] = "true"
ENV.setdefault("CARGO_TERM_COLOR", "never")

ASAN_FLAGS = "-Zsanitizer=address -Cforce-frame-pointers=yes"
TARGET = "x86_64-unknown-linux-gnu"


def _last_summary(out):
    for line in out.splitlines()[::-1]:
        line = line.strip()
        if line.startswith("{") and '"type":"summary"' in line:
            try:
                return json.loads(line)
            except Exception:
                return None
    return None


def miri_env(harness):
    env = dict(ENV)
    env["CARGO_TARGET_DIR"] = os.path.join(harness, "target", "miri")
    env["MIRIFLAGS"] = "-Zmiri-disable-isolation"
    return env


def build_miri(harness, log):
    t0 = time.time()
    p = subprocess.run(["cargo", "+nightly", "miri", "run", "--offline", "--bin", "mem", "--", "--prop", "NONE", "--threads", "1"],
                       cwd=harness, env=miri_env(harness), stdout=subprocess.PIPE, stderr=subprocess.PIPE, text=True)
    log("[miri build: %.1fs rc=%d]" % (time.time() - t0, p.returncode))
    if p.returncode != 0 or _last_summary(p.stdout) is None:
        return False, (p.stderr[-3000:])
    return True, ""


def build_asan(harness, log):
    env = dict(ENV)
    env["CARGO_TARGET_DIR"] = os.path.join(harness, "target", "asan")
    env["RUSTFLAGS"] = ASAN_FLAGS
    t0 = time.time()
    p = subprocess.run(["cargo", "+nightly", "build", "--offline", "--profile", "asan", "--target", TARGET, "--bin", "mem"],
                       cwd=harness, env=env, stdout=subprocess.PIPE, stderr=subprocess.STDOUT, text=True)
    log("[asan build: %.1fs rc=%d]" % (time.time() - t0, p.returncode))
    if p.returncode != 0:
        return None, p.stdout[-3000:]
    return os.path.join(harness, "target", "asan", TARGET, "asan", "mem"), ""


def setup(root, harness, log):
    ok, msg = build_miri(harness, log)
    if not ok:
        log("miri build failed during setup (will be retried by the checks): " + msg[-500:])
    b, msg = build_asan(harness, log)
    if b is None:
        log("asan build failed during setup (will be retried by the checks): " + msg[-500:])
    return 0


def _violation(prop, tool, what, report):
    return {"prop": prop, "monitor": "sanitizer:" + tool, "class": None, "section": "", "k": -1,
            "detail": {"tool": tool, "what": what, "report": report[-6000:]}}


def _empty_summary(prop, tool, tier, seed):
    return {"type": "summary", "prop": prop, "driver": "mem", "profile": tool, "tier": tier, "seed": seed,
            "evaluations": 0, "distinct_nontrivial": 0, "counters": {}, "set_sizes": {}, "maxes": {}, "samples": [],
            "violations": [], "violations_total": 0, "violations_by_class": {}, "harness_errors": [], "sections": []}


def _absorb(total, s):
    total["evaluations"] += s["evaluations"]
    total["distinct_nontrivial"] += s["distinct_nontrivial"]
    for k, v in s.get("counters", {}).items():
        total["counters"][k] = total["counters"].get(k, 0) + v
    total["violations"] += s.get("violations", [])
    total["violations_total"] += s.get("violations_total", 0)
    for k, v in s.get("violations_by_class", {}).items():
        total["violations_by_class"][k] = total["violations_by_class"].get(k, 0) + v
    total["harness_errors"] += s.get("harness_errors", [])
    if len(total["samples"]) < 3:
        total["samples"] += s.get("samples", [])[:1]


def run_miri(harness, prop, tier, seed, ncpu, log):
    tot = _empty_summary(prop, "miri", tier, seed)
    rep = {"tool": "miri (cargo +nightly miri run, stacked borrows)", "executions_under_tool": 0, "reports": 0, "shards": 0}
    inconclusive = []
    ok, msg = build_miri(harness, log)
    if not ok:
        # a compile error is not a verdict; a Miri UB report while running the no-op is impossible
        inconclusive.append("miri build failed: " + msg[-300:])
        return tot, rep, inconclusive
    shards = ncpu
    scale = "4" if tier == "thorough" else "1"
    procs = []
    t0 = time.time()
    for r in range(shards):
        cmd = ["cargo", "+nightly", "miri", "run", "--offline", "--bin", "mem", "--", "--prop", prop, "--tier", "quick", "--seed", str(seed),
               "--threads", "1", "--tiny", "--sanitizer", "--scale", scale, "--kmod", str(shards), "--krem", str(r)]
        procs.append((r, subprocess.Popen(cmd, cwd=harness, env=miri_env(harness), stdout=subprocess.PIPE, stderr=subprocess.PIPE, text=True)))
    deadline = 5400 if tier == "thorough" else 1200
    for r, p in procs:
        try:
            out, err = p.communicate(timeout=max(10, deadline - (time.time() - t0)))
        except subprocess.TimeoutExpired:
            p.kill()
            out, err = p.communicate()
            inconclusive.append("miri shard %d exceeded the watchdog" % r)
            continue
        rep["shards"] += 1
        s = _last_summary(out)
        if "Undefined Behavior" in err or "error: unsupported operation" in err and "Undefined" in err:
            rep["reports"] += 1
            m = re.search(r"error: Undefined Behavior.*", err, re.S)
            tot["violations"].append(_violation(prop, "miri", "Miri reported undefined behaviour (shard %d of %d, seed %d)" % (r, shards, seed), m.group(0) if m else err))
            tot["violations_total"] += 1
            tot["violations_by_class"]["unclassified"] = tot["violations_by_class"].get("unclassified", 0) + 1
            continue
        if s is None:
            inconclusive.append("miri shard %d ended with status %d without a summary: %s" % (r, p.returncode, err[-300:]))
            continue
        _absorb(tot, s)
    rep["executions_under_tool"] = tot["evaluations"]
    log("[miri %s: %d executions, %d report(s), %.1fs]" % (prop, tot["evaluations"], rep["reports"], time.time() - t0))
    return tot, rep, inconclusive


def run_asan(harness, prop, tier, seed, ncpu, log):
    tot = _empty_summary(prop, "asan", tier, seed)
    rep = {"tool": "AddressSanitizer (rustc nightly -Zsanitizer=address, opt-level 1)", "executions_under_tool": 0, "reports": 0}
    inconclusive = []
    binp, msg = build_asan(harness, log)
    if binp is None:
        inconclusive.append("asan build failed: " + msg[-300:])
        return tot, rep, inconclusive
    env = dict(ENV)
    env["ASAN_OPTIONS"] = "detect_leaks=0:halt_on_error=1:abort_on_error=0:symbolize=1"
    args = [binp, "--prop", prop, "--tier", tier, "--seed", str(seed), "--threads", str(min(6, ncpu)), "--sanitizer"]
    if tier == "thorough":
        args += ["--scale", "0.5"]
    t0 = time.time()
    try:
        p = subprocess.run(args, cwd=harness, env=env, stdout=subprocess.PIPE, stderr=subprocess.PIPE, text=True, timeout=5400 if tier == "thorough" else 1200)
    except subprocess.TimeoutExpired:
        inconclusive.append("asan run exceeded the watchdog")
        return tot, rep, inconclusive
    if "ERROR: AddressSanitizer" in p.stderr:
        m = re.search(r"==\d+==ERROR: AddressSanitizer.*", p.stderr, re.S)
        report = m.group(0) if m else p.stderr
        if "ndarray_stats" in report:
            rep["reports"] += 1
            tot["violations"].append(_violation(prop, "asan", "AddressSanitizer report with a frame of the crate under observation", report))
            tot["violations_total"] += 1
            tot["violations_by_class"]["unclassified"] = 1
        else:
            # no frame of ndarray-stats in the report: stack-use-after-scope noise of ASan after unwinding in harness/std code
            rep["harness_only_reports_ignored"] = rep.get("harness_only_reports_ignored", 0) + 1
            rep["ignored_report_head"] = report[:600]
            inconclusive.append("asan reported an error without any ndarray_stats frame (run stopped early): " + report[:200])
        return tot, rep, inconclusive
    s = _last_summary(p.stdout)
    if s is None:
        inconclusive.append("asan run ended with status %d without a summary: %s" % (p.returncode, p.stderr[-300:]))
        return tot, rep, inconclusive
    _absorb(tot, s)
    rep["executions_under_tool"] = tot["evaluations"]
    log("[asan %s: %d executions, %d report(s), %.1fs]" % (prop, tot["evaluations"], rep["reports"], time.time() - t0))
    return tot, rep, inconclusive


def run_memcheck(harness, prop, tier, seed, ncpu, log, binp):
    tot = _empty_summary(prop, "memcheck", tier, seed)
    rep = {"tool": "valgrind memcheck on the plain release binary", "executions_under_tool": 0, "reports": 0}
    inconclusive = []
    args = ["valgrind", "--error-exitcode=9", "--quiet", "--fair-sched=yes", binp, "--prop", prop, "--tier", "quick", "--seed", str(seed), "--threads", "4", "--sanitizer"]
    if tier == "thorough":
        args += ["--scale", "0.3"]
    else:
        args += ["--tiny"]
    t0 = time.time()
    try:
        p = subprocess.run(args, cwd=harness, env=ENV, stdout=subprocess.PIPE, stderr=subprocess.PIPE, text=True, timeout=5400 if tier == "thorough" else 1200)
    except subprocess.TimeoutExpired:
        inconclusive.append("memcheck run exceeded the watchdog")
        return tot, rep, inconclusive
    errs = [l for l in p.stderr.splitlines() if re.match(r"==\d+== (Invalid|Conditional jump|Use of uninit|Mismatched|Source and dest|Argument .* points|Syscall param)", l)]
    if p.returncode == 9 or errs:
        rep["reports"] += len(errs) or 1
        tot["violations"].append(_violation(prop, "memcheck", "valgrind memcheck reported a memory error", p.stderr))
        tot["violations_total"] += 1
        tot["violations_by_class"]["unclassified"] = 1
        return tot, rep, inconclusive
    s = _last_summary(p.stdout)
    if s is None:
        inconclusive.append("memcheck run ended with status %d without a summary: %s" % (p.returncode, p.stderr[-300:]))
        return tot, rep, inconclusive
    _absorb(tot, s)
    rep["executions_under_tool"] = tot["evaluations"]
    log("[memcheck %s: %d executions, %d report(s), %.1fs]" % (prop, tot["evaluations"], rep["reports"], time.time() - t0))
    return tot, rep, inconclusive


def run_stage(stage, root, harness, prop, tier, seed, ncpu, log):
    tool = stage["tool"]
    if tier not in stage.get("tiers", ["quick", "thorough"]):
        return {"summaries": [], "report": {"tool": tool, "status": "not part of the %s tier" % tier}, "inconclusive": []}
    if tool == "miri":
        tot, rep, inc = run_miri(harness, prop, tier, seed, ncpu, log)
    elif tool == "asan":
        tot, rep, inc = run_asan(harness, prop, tier, seed, ncpu, log)
    elif tool == "memcheck":
        tot, rep, inc = run_memcheck(harness, prop, tier, seed, ncpu, log, os.path.join(harness, "target", "release", "mem"))
    else:
        return {"summaries": [], "report": {"tool": tool, "status": "unknown tool"}, "inconclusive": ["unknown sanitizer " + tool]}
    tot["stage"] = "sanitizer:" + tool
    rep["status"] = "ran"
    return {"summaries": [tot], "report": rep, "inconclusive": inc}
