"""Offline exact oracle over the numeric event log written by the `num` driver.

Every record holds the operation, the element type and the BIT PATTERNS of operands (logical order)
and result.  The mathematical value is recomputed with fractions.Fraction (exact) and decimal (60
digits, for ln / sqrt / log10) and the result is accepted iff |result - exact| <= tol, tol being the
a-priori forward error bound of DESIGN.md section 4 evaluated exactly from the operands.
Python standard library only.
"""
import json
import math
import multiprocessing
import os
import struct
import subprocess
import sys
import time
from decimal import Decimal as D, getcontext
from fractions import Fraction as F

getcontext().prec = 60

U = {"f64": F(1, 2 ** 53), "f32": F(1, 2 ** 24)}
ETA = {"f64": F(1, 2 ** 1074), "f32": F(1, 2 ** 149)}
FMAX = {"f64": F(2) ** 1023, "f32": F(2) ** 127}
FMIN_NORMAL = {"f64": F(1, 2 ** 1022), "f32": F(1, 2 ** 126)}   # smallest subnormal: absolute slack per operation
SAFETY = 4


def val(h, ty):
    if ty == "f64":
        return struct.unpack(">d", bytes.fromhex(h))[0]
    return struct.unpack(">f", bytes.fromhex(h))[0]


def vals(hs, ty):
    return [val(h, ty) for h in hs]


def finite(xs):
    return all(math.isfinite(x) for x in xs)


def gamma(k, u):
    return k * u / (1 - k * u)


def dec(fr):
    return D(fr.numerator) / D(fr.denominator)


def frac_of_dec(d):
    return F(d)


def result_value(r, ty):
    """-> ('val', float) | ('err', text) | ('panic', text)"""
    if isinstance(r, str):
        return ("val", val(r, ty))
    if isinstance(r, dict):
        if "err" in r:
            return ("err", r["err"])
        return ("panic", r.get("panic", "?"))
    return ("err", "malformed")


def close(got, exact, tol):
    """got: float, exact/tol: Fraction. returns (ok, ratio)"""
    if not math.isfinite(got):
        return False, float("inf")
    err = abs(F(got) - exact)
    if tol == 0:
        return err == 0, 0.0 if err == 0 else float("inf")
    ratio = float(err / tol)
    return err <= tol, ratio


OK, SKIP, BAD = "ok", "skip", "bad"


def need_val(rec, key="r", ty=None):
    kind, v = result_value(rec[key], ty or rec["ty"])
    if kind != "val":
        return None, "%s on valid input: %s" % (kind, v)
    return v, None


# ------------------------------------------------------------------ C06
def j_mean(rec):
    ty = rec["ty"]; u = U[ty]
    xs = vals(rec["x"], ty); n = len(xs)
    if not finite(xs):
        return SKIP, "non-finite input"
    got, e = need_val(rec)
    if e: return BAD, e
    X = [F(x) for x in xs]
    exact = sum(X) / n
    tol = SAFETY * (gamma(max(n - 1, 1), u) * sum(abs(x) for x in X) / n + 2 * u * abs(exact)) + ETA[ty]
    ok, ratio = close(got, exact, tol)
    return (OK, ratio) if ok else (BAD, "mean = %r, exact %s, tol %.3e (ratio %.3g)" % (got, float(exact), float(tol), ratio))


def wsum_parts(rec):
    ty = rec["ty"]
    xs = vals(rec["x"], ty); ws = vals(rec["w"], ty)
    return ty, xs, ws


def j_weighted_sum(rec, key="r"):
    ty, xs, ws = wsum_parts(rec); u = U[ty]; n = len(xs)
    if not (finite(xs) and finite(ws)):
        return SKIP, "non-finite input"
    got, e = need_val(rec, key)
    if e: return BAD, e
    X = [F(x) for x in xs]; W = [F(w) for w in ws]
    exact = sum(x * w for x, w in zip(X, W))
    tol = SAFETY * gamma(n + 1, u) * sum(abs(x * w) for x, w in zip(X, W)) + n * ETA[ty]
    ok, ratio = close(got, exact, tol)
    return (OK, ratio) if ok else (BAD, "weighted_sum = %r, exact %s, tol %.3e (ratio %.3g)" % (got, float(exact), float(tol), ratio))


def j_weighted_mean(rec, key="r"):
    ty, xs, ws = wsum_parts(rec); u = U[ty]; n = len(xs)
    if not (finite(xs) and finite(ws)):
        return SKIP, "non-finite input"
    X = [F(x) for x in xs]; W = [F(w) for w in ws]
    S = sum(x * w for x, w in zip(X, W)); Wt = sum(W)
    g = gamma(n + 1, u)
    aw = sum(abs(w) for w in W)
    if abs(Wt) <= 2 * g * aw or Wt == 0:
        return SKIP, "total weight not well separated from zero"
    got, e = need_val(rec, key)
    if e: return BAD, e
    exact = S / Wt
    tol = SAFETY * ((g * sum(abs(x * w) for x, w in zip(X, W)) + abs(exact) * g * aw) / (abs(Wt) - g * aw) + 2 * u * abs(exact)) + n * ETA[ty]
    ok, ratio = close(got, exact, tol)
    return (OK, ratio) if ok else (BAD, "weighted_mean = %r, exact %s, tol %.3e (ratio %.3g)" % (got, float(exact), float(tol), ratio))


def j_harmonic(rec):
    ty = rec["ty"]; u = U[ty]
    xs = vals(rec["x"], ty); n = len(xs)
    if not finite(xs) or any(x == 0 for x in xs):
        return SKIP, "zero or non-finite input"
    got, e = need_val(rec)
    if e: return BAD, e
    R = [1 / F(x) for x in xs]
    m = sum(R) / n
    if m == 0:
        return SKIP, "mean of reciprocals is zero"
    if got == 0 or not math.isfinite(got):
        # an infinite answer is the reciprocal of a computed mean of reciprocals of exactly zero: judged on the
        # reciprocal scale like any other answer (cancelling signs make that legitimate)
        tol0 = SAFETY * (gamma(n + 2, u) * sum(abs(r) for r in R) / n + 2 * u * abs(m))
        if math.isinf(got) and abs(m) <= tol0:
            return OK, float(abs(m) / tol0)
        # otherwise a zero / non-finite answer is only acceptable when the exact value, or the sum of reciprocals on
        # the way to it, leaves the exponent range of the element type
        h = abs(1 / m)
        if sum(abs(r) for r in R) <= FMAX[ty] / 4 and FMIN_NORMAL[ty] * 4 <= h <= FMAX[ty] / 4:
            return BAD, "harmonic_mean = %r although the exact value %.6e and the sum of reciprocals are well inside the exponent range" % (got, float(1 / m))
        return SKIP, "result or sum of reciprocals outside the exponent range"
    tol = SAFETY * (gamma(n + 2, u) * sum(abs(r) for r in R) / n + 2 * u * abs(m))
    err = abs(1 / F(got) - m)
    ratio = float(err / tol)
    return (OK, ratio) if err <= tol else (BAD, "1/harmonic_mean = %s, mean of reciprocals %s, tol %.3e (ratio %.3g)" % (float(1 / F(got)), float(m), float(tol), ratio))


def j_geometric(rec):
    ty = rec["ty"]; u = U[ty]
    xs = vals(rec["x"], ty); n = len(xs)
    if not finite(xs) or any(x <= 0 for x in xs):
        return SKIP, "non-positive input"
    got, e = need_val(rec)
    if e: return BAD, e
    if not (got > 0 and math.isfinite(got)):
        return BAD, "geometric_mean of positive data = %r" % got
    L = [dec(F(x)).ln() for x in xs]
    m = sum(L) / n
    du = dec(u)
    tol = D(SAFETY) * (D(n + 2) * du * sum(abs(l) for l in L) / n + 4 * du * (1 + abs(m)))
    err = abs(dec(F(got)).ln() - m)
    ratio = float(err / tol)
    return (OK, ratio) if err <= tol else (BAD, "ln(geometric_mean) = %s, mean of logs %s, tol %.3e (ratio %.3g)" % (dec(F(got)).ln(), m, float(tol), ratio))


# ------------------------------------------------------------------ C07
def west_bound(X, W, u):
    """first-order forward error bound of West's recurrence in exact arithmetic (weights >= 0)"""
    Wt = F(0); m = F(0); s = F(0); Em = F(0); Es = F(0)
    i = 0
    for x, w in zip(X, W):
        i += 1
        Wt += w
        if Wt == 0:
            continue
        d = x - m
        r = w / Wt
        m_new = m + r * d
        Em_new = Em + u * (abs(m_new) + (i + 3) * r * abs(d))
        e = x - m_new
        term = w * d * e
        Es += w * (Em * abs(e) + abs(d) * Em_new) + 5 * u * abs(term)
        s += term
        Es += u * abs(s)
        m = m_new; Em = Em_new
    return s, Es, Wt


def var_exact_tol(rec):
    ty, xs, ws = wsum_parts(rec); u = U[ty]; n = len(xs)
    ddof = F(val(rec["ddof"], ty))
    if not (finite(xs) and finite(ws)) or any(w < 0 for w in ws):
        return None, "non-finite input or negative weight"
    X = [F(x) for x in xs]; W = [F(w) for w in ws]
    Wt = sum(W)
    den = Wt - ddof
    if Wt <= 0 or den <= 0:
        return None, "total weight - ddof not positive"
    mean = sum(x * w for x, w in zip(X, W)) / Wt
    S = sum(w * (x - mean) ** 2 for x, w in zip(X, W))
    # the recurrence forms products of two deviations (times a weight): when the squared range of the data comes
    # within a factor 16 of the largest finite value the intermediate products overflow although the variance itself
    # may be representable - the counterpart of the guard of the central moments
    rng2 = (max(X) - min(X)) ** 2
    if rng2 * max(F(1), max(W)) > FMAX[ty] / 16:
        return None, "overflow range"
    _, Es, _ = west_bound(X, W, u)
    err_den = n * u * Wt + u * abs(den)
    if den <= 2 * err_den:
        return None, "denominator not well separated from zero"
    exact = S / den
    tol = SAFETY * (Es + 3 * u * S + abs(exact) * err_den) / (den - err_den) + n * ETA[ty]
    return (exact, tol), None


def j_weighted_var(rec, key="r"):
    et, why = var_exact_tol(rec)
    if et is None:
        return SKIP, why
    got, e = need_val(rec, key)
    if e: return BAD, e
    exact, tol = et
    ok, ratio = close(got, exact, tol)
    if ok and got < -float(tol):
        return BAD, "variance %r negative beyond the bound" % got
    return (OK, ratio) if ok else (BAD, "weighted_var = %r, exact %s, tol %.3e (ratio %.3g)" % (got, float(exact), float(tol), ratio))


def j_weighted_std(rec, key="r"):
    et, why = var_exact_tol(rec)
    if et is None:
        return SKIP, why
    got, e = need_val(rec, key)
    if e: return BAD, e
    exact, tol = et
    u = U[rec["ty"]]
    if not math.isfinite(got) or got < 0:
        # sqrt of a tiny negative rounding residue gives NaN: accepted only if the exact variance is within tol of 0
        if math.isnan(got) and exact <= tol:
            return SKIP, "variance indistinguishable from zero"
        return BAD, "weighted_std = %r for exact variance %s" % (got, float(exact))
    g2 = F(got) ** 2
    t = tol + 3 * u * g2
    err = abs(g2 - exact)
    ratio = float(err / t) if t else (0.0 if err == 0 else float("inf"))
    return (OK, ratio) if err <= t else (BAD, "weighted_std^2 = %s, exact variance %s, tol %.3e (ratio %.3g)" % (float(g2), float(exact), float(t), ratio))


def moment_exact_tol(X, p, u, ty):
    """exact central moment of order p and its bound 4(n+4p+8)u(1/n)sum(|x-mean|+2delta)^p, delta=(n+2)u sum|x|/n,
    in integer arithmetic (all operands are dyadic rationals: one common power-of-two denominator)"""
    n = len(X)
    Dn = max(x.denominator for x in X)
    Xi = [x.numerator * (Dn // x.denominator) for x in X]
    S = sum(Xi)
    d = [n * xi - S for xi in Xi]          # (x_i - mean) * n * Dn
    scale = n * Dn
    exact = F(sum(di ** p for di in d), n * scale ** p)
    U = u.denominator                       # u = 1/U
    e_num = 2 * (n + 2) * sum(abs(xi) for xi in Xi)   # 2*delta*scale*U
    A = F(sum((abs(di) * U + e_num) ** p for di in d), n * (scale * U) ** p)
    tol = SAFETY * (n + 4 * p + 8) * u * A + n * ETA[ty]
    if A * n > FMAX[ty] / 16:
        return None, None   # the power sums leave the exponent range of the element type
    return exact, tol


def j_central_moment_value(got, X, p, u, ty):
    if p == 0:
        return (OK, 0.0) if got == 1.0 else (BAD, "order 0 moment = %r, must be exactly 1" % got)
    if p == 1:
        return (OK, 0.0) if got == 0.0 else (BAD, "order 1 moment = %r, must be exactly 0" % got)
    exact, tol = moment_exact_tol(X, p, u, ty)
    if exact is None:
        return SKIP, "overflow range"
    ok, ratio = close(got, exact, tol)
    return (OK, ratio) if ok else (BAD, "central moment of order %d = %r, exact %s, tol %.3e (ratio %.3g)" % (p, got, float(exact), float(tol), ratio))


def j_central_moment(rec):
    ty = rec["ty"]; u = U[ty]
    xs = vals(rec["x"], ty)
    if not finite(xs):
        return SKIP, "non-finite input"
    got, e = need_val(rec)
    if e: return BAD, e
    return j_central_moment_value(got, [F(x) for x in xs], rec["p"], u, ty)


def j_central_moments(rec):
    ty = rec["ty"]; u = U[ty]
    xs = vals(rec["x"], ty)
    if not finite(xs):
        return SKIP, "non-finite input"
    r = rec["r"]
    if not isinstance(r, list):
        return BAD, "central_moments on valid input: %s" % (r,)
    p = rec["p"]
    if len(r) != p + 1:
        return BAD, "central_moments(%d) returned %d values" % (p, len(r))
    X = [F(x) for x in xs]
    worst = 0.0
    for k, h in enumerate(r):
        st, info = j_central_moment_value(val(h, ty), X, k, u, ty)
        if st == BAD:
            return BAD, "entry %d: %s" % (k, info)
        if st == SKIP:
            continue
        worst = max(worst, info)
    return OK, worst


def j_skew_kurt(rec, which):
    ty = rec["ty"]; u = U[ty]
    xs = vals(rec["x"], ty)
    if not finite(xs):
        return SKIP, "non-finite input"
    X = [F(x) for x in xs]
    m2, t2 = moment_exact_tol(X, 2, u, ty)
    if m2 is None or moment_exact_tol(X, 4, u, ty)[0] is None:
        return SKIP, "overflow range"
    if m2 <= 4 * t2:
        return SKIP, "second moment indistinguishable from zero"
    if m2 * m2 < FMIN_NORMAL[ty] * 2 ** 48:
        # the fourth moment (and the square / 3/2 power of the second) fall into or below the subnormal range of the
        # element type: the counterpart of the overflow guard above, outside the u-relative error model
        return SKIP, "underflow range"
    got, e = need_val(rec)
    if e: return BAD, e
    p = 3 if which == "skewness" else 4
    a, ta = moment_exact_tol(X, p, u, ty)
    ex = D(3) / D(2) if which == "skewness" else D(2)
    b = dec(m2); tb = dec(t2)
    blo = (b - tb) ** ex; bhi = (b + tb) ** ex; bb = b ** ex
    f = dec(a) / bb
    tol = dec(ta) / blo + abs(dec(a)) * (1 / blo - 1 / bhi) + 16 * dec(u) * abs(f)
    if not math.isfinite(got):
        return BAD, "%s = %r" % (which, got)
    err = abs(dec(F(got)) - f)
    ratio = float(err / tol) if tol else (0.0 if err == 0 else float("inf"))
    return (OK, ratio) if err <= tol else (BAD, "%s = %r, exact %s, tol %.3e (ratio %.3g)" % (which, got, f, float(tol), ratio))


# ------------------------------------------------------------------ axis == lane
def with_lane(judge):
    def j(rec):
        st, info = judge(rec, "r")
        if st != OK:
            return st, info
        # r2 = the whole-array routine applied to the owned lane: same bound, and r ~ r2 within the two tolerances
        worst = info
        if "r2" in rec:
            st2, info2 = judge(rec, "r2")
            if st2 == BAD:
                return BAD, "whole-array routine on the lane: " + str(info2)
            worst = max(info, info2) if st2 == OK else info
        if "r3" in rec:
            # the whole-array routine applied to the lane as it lies in the array (strided / reversed view)
            st3, info3 = judge(rec, "r3")
            if st3 == BAD:
                return BAD, "whole-array routine on the lane view: " + str(info3)
            if st3 == OK:
                worst = max(worst, info3)
        return OK, worst
    return j


# ------------------------------------------------------------------ C08
def cov_matrix(rec):
    ty = rec["ty"]
    xs = vals(rec["x"], ty)
    nv, no = rec["nv"], rec["no"]
    rows = [[F(x) for x in xs[i * no:(i + 1) * no]] for i in range(nv)]
    return rows, nv, no, finite(xs)


def cov_entry_tol(rows, m, delta, i, j, o, u):
    return (o + 6) * u * sum((abs(a - m[i]) + delta[i]) * (abs(b - m[j]) + delta[j]) for a, b in zip(rows[i], rows[j])) + o * delta[i] * delta[j]


def j_cov(rec):
    ty = rec["ty"]; u = U[ty]
    rows, nv, no, fin = cov_matrix(rec)
    if not fin:
        return SKIP, "non-finite input"
    ddof = F(val(rec["ddof"], ty))
    dof = F(no) - ddof
    if dof <= 0:
        return SKIP, "ddof >= observations"
    r = rec["r"]
    if not isinstance(r, list) or len(r) != nv * nv:
        return BAD, "cov on valid input: %s" % (str(r)[:200],)
    got = vals(r, ty)
    m = [sum(row) / no for row in rows]
    delta = [(no + 2) * u * sum(abs(x) for x in row) / no for row in rows]
    worst = 0.0
    tols = {}
    for i in range(nv):
        for j in range(i, nv):
            exact = sum((a - m[i]) * (b - m[j]) for a, b in zip(rows[i], rows[j])) / dof
            tol = SAFETY * cov_entry_tol(rows, m, delta, i, j, no, u) / dof + 2 * u * abs(exact) + no * ETA[ty]
            tols[(i, j)] = tol
            for (a, b) in ((i, j), (j, i)):
                ok, ratio = close(got[a * nv + b], exact, tol)
                if not ok:
                    return BAD, "cov[%d][%d] = %r, exact %s, tol %.3e (ratio %.3g)" % (a, b, got[a * nv + b], float(exact), float(tol), ratio)
                worst = max(worst, ratio)
            if abs(F(got[i * nv + j]) - F(got[j * nv + i])) > 2 * tol:
                return BAD, "cov not symmetric at (%d,%d)" % (i, j)
        if got[i * nv + i] < -float(tols[(i, i)]):
            return BAD, "cov diagonal %d negative: %r" % (i, got[i * nv + i])
    return OK, worst


def pearson_exact(rows, nv, no, u, ty):
    """-> dict (i,j) -> (rho exact Decimal, tol Decimal) or None if degenerate"""
    m = [sum(row) / no for row in rows]
    delta = [(no + 2) * u * sum(abs(x) for x in row) / no for row in rows]
    S = [sum((a - m[i]) ** 2 for a in rows[i]) for i in range(nv)]
    tv = []
    for k in range(nv):
        _, Es, _ = west_bound(rows[k], [F(1)] * no, u)
        tv.append((Es + 3 * u * S[k]) / no)
    out = {}
    du = dec(u)
    for i in range(nv):
        for j in range(nv):
            vi, vj = S[i] / no, S[j] / no
            if S[i] == 0 or S[j] == 0 or tv[i] * 4 > vi or tv[j] * 4 > vj:
                out[(i, j)] = None
                continue
            exc = sum((a - m[i]) * (b - m[j]) for a, b in zip(rows[i], rows[j])) / no
            tc = SAFETY * cov_entry_tol(rows, m, delta, i, j, no, u) / no
            si, sj = dec(vi).sqrt(), dec(vj).sqrt()
            rho = dec(exc) / (si * sj)
            tsi = dec(tv[i]) / (2 * si) * D("1.2") * SAFETY
            tsj = dec(tv[j]) / (2 * sj) * D("1.2") * SAFETY
            if tsi * 2 > si or tsj * 2 > sj:
                out[(i, j)] = None
                continue
            tol = (dec(tc) + abs(rho) * (sj * tsi + si * tsj + tsi * tsj)) / ((si - tsi) * (sj - tsj)) + 8 * du * (abs(rho) + 1)
            out[(i, j)] = (rho, tol)
    return out


def j_pearson_matrix(got, rows, nv, no, u, ty):
    ex = pearson_exact(rows, nv, no, u, ty)
    worst = 0.0
    judged = 0
    for (i, j), e in ex.items():
        if e is None:
            continue
        rho, tol = e
        g = got[i * nv + j]
        if not math.isfinite(g):
            return BAD, "pearson[%d][%d] = %r" % (i, j, g), 0
        err = abs(dec(F(g)) - rho)
        if err > tol:
            return BAD, "pearson[%d][%d] = %r, exact %s, tol %.3e (ratio %.3g)" % (i, j, g, rho, float(tol), float(err / tol)), 0
        worst = max(worst, float(err / tol))
        if abs(D(g)) > 1 + tol:
            return BAD, "pearson[%d][%d] = %r outside [-1, 1]" % (i, j, g), 0
        if i == j and abs(D(g) - 1) > tol:
            return BAD, "pearson diagonal %d = %r" % (i, g), 0
        judged += 1
    return OK, worst, judged


def j_pearson(rec):
    ty = rec["ty"]; u = U[ty]
    rows, nv, no, fin = cov_matrix(rec)
    if not fin:
        return SKIP, "non-finite input"
    r = rec["r"]
    if not isinstance(r, list) or len(r) != nv * nv:
        return BAD, "pearson_correlation on valid input: %s" % (str(r)[:200],)
    st, info, judged = j_pearson_matrix(vals(r, ty), rows, nv, no, u, ty)
    if st == BAD:
        return BAD, info
    if judged == 0:
        return SKIP, "all entries degenerate"
    return OK, info


def j_pearson_invariance(rec):
    ty = rec["ty"]; u = U[ty]
    nv, no = rec["nv"], rec["no"]
    r1, r2 = rec["r"], rec["r2"]
    if not (isinstance(r1, list) and isinstance(r2, list) and len(r1) == nv * nv == len(r2)):
        return BAD, "pearson_correlation on valid grid data failed: %s / %s" % (str(r1)[:100], str(r2)[:100])
    x1 = vals(rec["x"], ty); x2 = vals(rec["x2"], ty)
    rows1 = [[F(x) for x in x1[i * no:(i + 1) * no]] for i in range(nv)]
    rows2 = [[F(x) for x in x2[i * no:(i + 1) * no]] for i in range(nv)]
    e1 = pearson_exact(rows1, nv, no, u, ty); e2 = pearson_exact(rows2, nv, no, u, ty)
    g1 = vals(r1, ty); g2 = vals(r2, ty)
    var = rec["var"]; neg = rec["neg"]
    worst = 0.0
    for i in range(nv):
        for j in range(nv):
            if e1[(i, j)] is None or e2[(i, j)] is None:
                continue
            sign = -1 if (neg and ((i == var) != (j == var))) else 1
            a, b = D(g1[i * nv + j]), D(g2[i * nv + j]) * sign
            tol = e1[(i, j)][1] + e2[(i, j)][1]
            if abs(a - b) > tol:
                return BAD, "pearson[%d][%d]: %r before and %r after an exact %s of variable %d (tol %.3e)" % (i, j, g1[i * nv + j], g2[i * nv + j], "negation" if neg else "positive affine rescaling", var, float(tol))
            worst = max(worst, float(abs(a - b) / tol) if tol else 0.0)
    return OK, worst


# ------------------------------------------------------------------ C09
def ab(rec):
    ty = rec["ty"]
    return ty, vals(rec["a"], ty), vals(rec["b"], ty)


def fl_sub(a, b, ty):
    """correctly rounded a - b in the element type (as the hardware does it)"""
    if ty == "f64":
        return a - b
    return struct.unpack(">f", struct.pack(">f", a - b))[0]   # a-b of two f32 is exact in f64, then one rounding


def j_dist(rec, which, key="r"):
    ty, a, b = ab(rec); u = U[ty]; n = len(a)
    if not (finite(a) and finite(b)):
        return SKIP, "non-finite input"
    got, e = need_val(rec, key)
    if e: return BAD, e
    A = [F(x) for x in a]; B = [F(x) for x in b]
    if which == "linf":
        exact = max(abs(F(fl_sub(x, y, ty))) for x, y in zip(a, b))
        ok = F(got) == exact
        return (OK, 0.0) if ok else (BAD, "linf_dist = %r, max of the correctly rounded |a-b| is %s" % (got, float(exact)))
    if which == "sq":
        terms = [(x - y) ** 2 for x, y in zip(A, B)]
        # (a-b) rounded once (rel u), squared (rel ~3u in total), summed
        tol = SAFETY * gamma(n + 3, u) * sum(terms) + n * ETA[ty]
    else:
        terms = [abs(x - y) for x, y in zip(A, B)]
        tol = SAFETY * gamma(n + 2, u) * sum(terms) + n * ETA[ty]
    exact = sum(terms)
    ok, ratio = close(got, exact, tol)
    return (OK, ratio) if ok else (BAD, "%s distance = %r, exact %s, tol %.3e (ratio %.3g)" % (which, got, float(exact), float(tol), ratio))


def j_sym(rec, which):
    st, info = j_dist(rec, which, "r")
    if st != OK:
        return st, info
    st2, info2 = j_dist(rec, which, "r2")
    if st2 == BAD:
        return BAD, "swapped operands: " + str(info2)
    return OK, max(info, info2 if st2 == OK else 0.0)


def ulps64(g, w):
    if g == w:
        return 0.0
    if not (math.isfinite(g) and math.isfinite(w)):
        return float("inf")
    return abs(g - w) / (2.0 ** -52 * max(abs(w), 5e-324))


def j_derived(rec, which):
    """documented function of the RETURNED base distance (f64 results whatever the element type)"""
    ty = rec["ty"]
    kind, r = result_value(rec["r"], "f64")
    if kind != "val":
        return BAD, "%s on valid input: %s" % (kind, r)
    n = rec["n"]
    ks, sq = result_value(rec["sq"], ty); kl, l1 = result_value(rec["l1"], ty)
    if ks != "val" or kl != "val" or not (math.isfinite(sq) and math.isfinite(l1)):
        return SKIP, "base distance not available"
    if which == "l2_dist":
        want = math.sqrt(sq)
    elif which == "mean_abs_err":
        want = l1 / n
    elif which == "mean_sq_err":
        want = sq / n
    elif which == "root_mean_sq_err":
        want = math.sqrt(sq / n)
    else:
        maxv = val(rec["maxv"], ty)
        mse = sq / n
        if mse == 0:
            return (OK, 0.0) if r == float("inf") else (BAD, "PSNR for identical inputs = %r, expected +inf" % r)
        want = 10.0 * math.log10(maxv * maxv / mse)
        tol = 8 * 2.0 ** -53 * abs(want) + 40 * 2.0 ** -53 / math.log(10)
        ok = abs(r - want) <= tol
        return (OK, abs(r - want) / tol) if ok else (BAD, "PSNR = %r, 10*log10(maxv^2/mse) = %r" % (r, want))
    d = ulps64(r, want)
    return (OK, d / 2.0) if d <= 2.0 else (BAD, "%s = %r, documented function of the returned distance gives %r (%.1f ulp)" % (which, r, want, d))


# ------------------------------------------------------------------ C10
def ent_terms(rec, kind):
    """returns (status, exact Decimal or special, sum |terms|, sum |p|)"""
    ty = rec["ty"]
    p = vals(rec["p"], ty)
    q = vals(rec["q"], ty) if "q" in rec else None
    terms = []
    special = None
    for i, pi in enumerate(p):
        if pi == 0:
            terms.append(D(0))   # contributes exactly zero, whatever q is (even NaN)
            continue
        if math.isnan(pi):
            special = "nan"; continue
        if kind == "entropy":
            if pi < 0 or math.isinf(pi):
                special = "nan" if pi < 0 else special or "unsupported"
                continue
            terms.append(dec(F(pi)) * dec(F(pi)).ln())
        else:
            qi = q[i]
            if math.isnan(qi):
                special = "nan"; continue
            if pi < 0 or qi < 0 or math.isinf(pi) or math.isinf(qi):
                special = special or "unsupported"; continue
            if qi == 0:
                special = special or "+inf"   # -p ln 0 = +inf for p > 0
                continue
            if kind == "cross":
                terms.append(dec(F(pi)) * dec(F(qi)).ln())
            else:
                terms.append(dec(F(pi)) * (dec(F(qi)) / dec(F(pi))).ln())
    return special, terms, sum(abs(dec(F(x))) for x in p if math.isfinite(x))


def ratio_out_of_range(rec):
    """known-finding predicate F9: some contributing pair has a quotient q_i/p_i that overflows or underflows to
    zero in the element type (kl_divergence takes the logarithm of the rounded quotient)"""
    ty = rec["ty"]
    p = vals(rec["p"], ty); q = vals(rec["q"], ty)
    big = float(FMAX[ty]) * 2 if ty == "f32" else None
    for pi, qi in zip(p, q):
        if pi > 0 and qi > 0 and math.isfinite(pi) and math.isfinite(qi):
            r = F(qi) / F(pi)
            # outside the NORMAL range: overflow, or (gradual) underflow, where the rounded quotient has lost
            # most or all of its precision before the logarithm is taken
            if r >= FMAX[ty] * 2 or r < FMIN_NORMAL[ty]:
                return True
    return False


def ratio_rounds_to_zero_or_inf(rec):
    """some contributing quotient q_i/p_i is not even representable as a subnormal (rounds to zero) or overflows:
    only then does the logarithm of the rounded quotient become infinite"""
    ty = rec["ty"]
    p = vals(rec["p"], ty); q = vals(rec["q"], ty)
    for pi, qi in zip(p, q):
        if pi > 0 and qi > 0 and math.isfinite(pi) and math.isfinite(qi):
            r = F(qi) / F(pi)
            if r >= FMAX[ty] * 2 or r <= F(ETA[ty]) / 2:
                return True
    return False


def j_entropy_like(rec, kind, key="r"):
    st, info = j_entropy_like_inner(rec, kind, key)
    if st == BAD and kind == "kl" and ratio_out_of_range(rec) and not str(info).startswith("[class:"):
        # known finding F9 covers the loss of accuracy of ln(q_i/p_i) for a quotient outside the normal range; an
        # INFINITE (or NaN) answer belongs to it only when a quotient really rounds to zero or overflows
        got, e = need_val(rec, key)
        if e is None and (math.isfinite(got) or ratio_rounds_to_zero_or_inf(rec)):
            info = "[class:F9] " + str(info)
    return st, info


def j_entropy_like_inner(rec, kind, key="r"):
    ty = rec["ty"]; u = U[ty]
    got, e = need_val(rec, key)
    if e: return BAD, e
    special, terms, sp = ent_terms(rec, kind)
    if special == "unsupported":
        return SKIP, "negative or infinite entries"
    if special == "nan":
        return (OK, 0.0) if math.isnan(got) else (BAD, "a NaN in a contributing term must make the result NaN, got %r" % got)
    if special == "+inf":
        return (OK, 0.0) if got == float("inf") else (BAD, "q = 0 where p > 0 must give +inf, got %r" % got)
    n = len(terms)
    exact = -sum(terms)
    tol = D(SAFETY) * (D(n + 8) * dec(u) * sum(abs(t) for t in terms) + 4 * dec(u) * sp) + 4 * n * dec(ETA[ty])
    if not math.isfinite(got):
        return BAD, "%s = %r, exact %s" % (kind, got, exact)
    err = abs(D(got) - exact)
    if tol == 0:
        return (OK, 0.0) if err == 0 else (BAD, "%s = %r, exact 0" % (kind, got))
    ratio = float(err / tol)
    return (OK, ratio) if err <= tol else (BAD, "%s = %r, exact %s, tol %.3e (ratio %.3g)" % (kind, got, exact, float(tol), ratio))


def j_kl_self(rec):
    ty = rec["ty"]
    got, e = need_val(rec)
    if e: return BAD, e
    p = vals(rec["p"], ty)
    if any(math.isnan(x) for x in p):
        return (OK, 0.0) if math.isnan(got) else (BAD, "KL(p,p) with NaN in p = %r" % got)
    if any(x < 0 or math.isinf(x) for x in p):
        return SKIP, "negative or infinite entries"
    return (OK, 0.0) if got == 0 else (BAD, "KL(p,p) = %r, must be zero" % got)


def j_entropy_identity(rec):
    """H(p,q) = H(p) + KL(p,q), KL >= P ln(P/Q) (log-sum inequality), H(p) <= -X ln(X/n), all on the returned values"""
    ty = rec["ty"]; u = U[ty]
    kh, h = result_value(rec["h"], ty); kc, c = result_value(rec["hpq"], ty); kk, k = result_value(rec["kl"], ty)
    if kh != "val" or kc != "val" or kk != "val":
        return BAD, "a routine failed on valid input"
    if not (math.isfinite(h) and math.isfinite(c) and math.isfinite(k)):
        return SKIP, "non-finite values (judged by the individual records)"
    p = vals(rec["p"], ty); q = vals(rec["q"], ty)
    if any(x < 0 for x in p) or any(x < 0 for x in q):
        return SKIP, "negative entries"
    rh = dict(rec);
    _, th, sp = ent_terms(rec, "entropy"); _, tc, _ = ent_terms(rec, "cross"); _, tk, _ = ent_terms(rec, "kl")
    n = len(p)
    du = dec(u)
    def tol(ts):
        return D(SAFETY) * (D(n + 8) * du * sum(abs(t) for t in ts) + 4 * du * sp) + 4 * n * dec(ETA[ty])
    t_all = tol(th) + tol(tc) + tol(tk)
    d = abs(D(c) - D(h) - D(k))
    f9 = "[class:F9] " if ratio_out_of_range(rec) else ""   # the returned KL is inaccurate there (known finding)
    if d > t_all:
        return BAD, f9 + "H(p,q) - H(p) - KL(p,q) = %s exceeds the sum of the tolerances %.3e" % (d, float(t_all))
    worst = float(d / t_all) if t_all else 0.0
    P = sum(dec(F(x)) for x in p); Q = sum(dec(F(x)) for x, pp in zip(q, p) if pp != 0)
    if P > 0 and Q > 0:
        lb = P * (P / Q).ln()
        if D(k) < lb - tol(tk) - 8 * du * abs(lb):
            return BAD, f9 + "KL(p,q) = %r below the log-sum bound P ln(P/Q) = %s" % (k, lb)
    X = P
    npos = sum(1 for x in p if x > 0)
    if X > 0 and npos > 0:
        ub = -X * (X / npos).ln()
        if D(h) > ub + tol(th) + 8 * du * abs(ub):
            return BAD, "entropy %r above -X ln(X/n) = %s" % (h, ub)
    return OK, worst


JUDGES = {
    "mean": j_mean,
    "weighted_sum": j_weighted_sum,
    "weighted_mean": j_weighted_mean,
    "weighted_sum_axis": with_lane(j_weighted_sum),
    "weighted_mean_axis": with_lane(j_weighted_mean),
    "harmonic_mean": j_harmonic,
    "geometric_mean": j_geometric,
    "weighted_var": j_weighted_var,
    "weighted_std": j_weighted_std,
    "weighted_var_axis": with_lane(j_weighted_var),
    "weighted_std_axis": with_lane(j_weighted_std),
    "central_moment": j_central_moment,
    "central_moments": j_central_moments,
    "skewness": lambda r: j_skew_kurt(r, "skewness"),
    "kurtosis": lambda r: j_skew_kurt(r, "kurtosis"),
    "cov": j_cov,
    "pearson": j_pearson,
    "pearson_invariance": j_pearson_invariance,
    "sq_l2_dist": lambda r: j_dist(r, "sq"),
    "l1_dist": lambda r: j_dist(r, "l1"),
    "linf_dist": lambda r: j_dist(r, "linf"),
    "sym_sq_l2_dist": lambda r: j_sym(r, "sq"),
    "sym_l1_dist": lambda r: j_sym(r, "l1"),
    "sym_linf_dist": lambda r: j_sym(r, "linf"),
    "l2_dist": lambda r: j_derived(r, "l2_dist"),
    "mean_abs_err": lambda r: j_derived(r, "mean_abs_err"),
    "mean_sq_err": lambda r: j_derived(r, "mean_sq_err"),
    "root_mean_sq_err": lambda r: j_derived(r, "root_mean_sq_err"),
    "peak_signal_to_noise_ratio": lambda r: j_derived(r, "psnr"),
    "entropy": lambda r: j_entropy_like(r, "entropy"),
    "cross_entropy": lambda r: j_entropy_like(r, "cross"),
    "kl_divergence": lambda r: j_entropy_like(r, "kl"),
    "kl_self": j_kl_self,
    "entropy_identity": j_entropy_identity,
}

# which operations decide which property (records of other operations in a log are judged too, but a
# violation is attributed to the property being checked only if the operation belongs to it)
PROP_OPS = {
    "C06": {"mean", "weighted_sum", "weighted_mean", "weighted_sum_axis", "weighted_mean_axis", "harmonic_mean", "geometric_mean"},
    "C07": {"weighted_var", "weighted_std", "weighted_var_axis", "weighted_std_axis", "central_moment", "central_moments", "skewness", "kurtosis"},
    "C08": {"cov", "pearson", "pearson_invariance"},
    "C09": {"sq_l2_dist", "l1_dist", "linf_dist", "sym_sq_l2_dist", "sym_l1_dist", "sym_linf_dist", "l2_dist", "mean_abs_err", "mean_sq_err", "root_mean_sq_err", "peak_signal_to_noise_ratio"},
    "C10": {"entropy", "cross_entropy", "kl_divergence", "kl_self", "entropy_identity"},
    "C18": {"weighted_sum_axis", "weighted_mean_axis", "weighted_var_axis", "weighted_std_axis"},
}


OWN_R2 = {"weighted_sum_axis", "weighted_mean_axis", "weighted_var_axis", "weighted_std_axis", "sym_sq_l2_dist", "sym_l1_dist", "sym_linf_dist", "pearson_invariance"}
PROP_OPS["C20"] = set(JUDGES.keys())


def summarize_record(rec):
    out = {k: rec[k] for k in rec if k not in ("x", "w", "a", "b", "p", "q", "x2")}
    for k in ("x", "w", "a", "b", "p", "q", "x2"):
        if k in rec and isinstance(rec[k], list):
            try:
                out[k] = [val(h, rec["ty"]) for h in rec[k][:40]]
                out[k + "_bits"] = rec[k][:40]
            except Exception:
                out[k] = rec[k][:40]
        elif k in rec:
            out[k] = rec[k]
    return out


def judge_range(args):
    path, start, end, prop = args
    stats = {}
    viol = []
    bitexact = 0
    lane_pairs = 0
    with open(path, "rb") as f:
        if start > 0:
            f.seek(start - 1)
            f.readline()   # finish the line the previous range owns
        while True:
            pos = f.tell()
            if pos >= end:
                break
            line = f.readline()
            if not line:
                break
            try:
                rec = json.loads(line)
            except Exception:
                stats.setdefault("_malformed", [0, 0, 0, 0.0])[2] += 1
                continue
            op = rec["op"]
            s = stats.setdefault(op, [0, 0, 0, 0.0])   # ok, skip, bad, max ratio
            try:
                st, info = JUDGES[op](rec)
                if st != BAD and "r2" in rec and op not in OWN_R2:
                    # (canonical, variant) pair of the representation differential: the variant result is
                    # judged against the same exact value with the same bound
                    rec2 = dict(rec)
                    rec2["r"] = rec["r2"]
                    st2, info2 = JUDGES[op](rec2)
                    if st2 == BAD:
                        st, info = BAD, "variant representation: " + str(info2)
                    elif st == OK and st2 == OK:
                        info = max(info, info2)
            except Exception as e:   # an oracle failure is not a verdict on the code
                stats.setdefault("_oracle_error", [0, 0, 0, 0.0])[2] += 1
                if len(viol) < 5:
                    viol.append({"oracle_error": True, "op": op, "sec": rec.get("sec"), "k": rec.get("k"), "what": "oracle raised %r" % (e,)})
                continue
            if "r2" in rec and isinstance(rec.get("r"), str) and isinstance(rec.get("r2"), str):
                lane_pairs += 1
                if rec["r"] == rec["r2"]:
                    bitexact += 1
            if st == OK:
                s[0] += 1
                if isinstance(info, float) and math.isfinite(info):
                    s[3] = max(s[3], info)
            elif st == SKIP:
                s[1] += 1
            else:
                s[2] += 1
                cls = None
                if isinstance(info, str) and info.startswith("[class:"):
                    cls = info[7:info.index("]")]
                    s2 = stats.setdefault("_class_" + cls, [0, 0, 0, 0.0])
                    s2[2] += 1
                if op in PROP_OPS.get(prop, ()) and (len(viol) < 12 or (cls and sum(1 for v in viol if v.get("class") == cls) < 3)):
                    viol.append({"op": op, "sec": rec.get("sec"), "k": rec.get("k"), "what": info, "class": cls, "record": summarize_record(rec)})
    return stats, viol, bitexact, lane_pairs


def judge_log(path, prop, nproc):
    size = os.path.getsize(path)
    nproc = max(1, min(nproc, size // 200_000 + 1))
    bounds = [size * i // nproc for i in range(nproc + 1)]
    jobs = [(path, bounds[i], bounds[i + 1], prop) for i in range(nproc)]
    if nproc == 1:
        results = [judge_range(jobs[0])]
    else:
        with multiprocessing.Pool(nproc) as pool:
            results = pool.map(judge_range, jobs)
    stats = {}
    viol = []
    bitexact = lane_pairs = 0
    for s, v, b, lp in results:
        for op, (a, b2, c, d) in s.items():
            t = stats.setdefault(op, [0, 0, 0, 0.0])
            t[0] += a; t[1] += b2; t[2] += c; t[3] = max(t[3], d)
        viol += v
        bitexact += b; lane_pairs += lp
    return stats, viol, bitexact, lane_pairs


def run_stage(root, harness, binpath, prop, tier, seed, profile, ncpu, watchdog, log, extra_args=None):
    work = os.path.join(root, "work")
    os.makedirs(work, exist_ok=True)
    logpath = os.path.join(work, "%s_%s_%d.jsonl" % (prop, profile, os.getpid()))
    args = [binpath, "--prop", prop, "--tier", tier, "--seed", str(seed), "--threads", str(ncpu), "--log", logpath] + list(extra_args or [])
    t0 = time.time()
    try:
        p = subprocess.run(args, cwd=harness, stdout=subprocess.PIPE, stderr=subprocess.PIPE, text=True, timeout=watchdog)
    except subprocess.TimeoutExpired:
        if os.path.exists(logpath):
            os.remove(logpath)
        return None
    summ = None
    for line in p.stdout.splitlines()[::-1]:
        if line.startswith("{") and '"type":"summary"' in line:
            summ = json.loads(line)
            break
    if summ is None:
        log(p.stderr[-2000:])
        if os.path.exists(logpath):
            os.remove(logpath)
        return None
    t1 = time.time()
    try:
        stats, viol, bitexact, lane_pairs = judge_log(logpath, prop, ncpu)
    finally:
        if os.path.exists(logpath):
            os.remove(logpath)
    log("[num %s %s: driver %.1fs, oracle %.1fs]" % (prop, profile, t1 - t0, time.time() - t1))
    judged = 0
    for op, (ok, skip, bad, mx) in stats.items():
        summ["counters"]["oracle_ok_" + op] = ok
        summ["counters"]["oracle_skipped_" + op] = skip
        summ["counters"]["oracle_bad_" + op] = bad
        summ["maxes"]["closest_bound_ratio_" + op] = mx
        judged += ok + bad
    summ["counters"]["axis_vs_lane_pairs"] = lane_pairs
    summ["counters"]["axis_vs_lane_bit_identical"] = bitexact
    relevant = PROP_OPS.get(prop, set())
    n_relevant_judged = sum(v[0] + v[2] for op, v in stats.items() if op in relevant)
    if n_relevant_judged == 0:
        summ["harness_errors"].append("the oracle judged no record of the operations that decide %s" % prop)
    if stats.get("_oracle_error", [0, 0, 0])[2] or stats.get("_malformed", [0, 0, 0])[2]:
        summ["harness_errors"].append("oracle errors: %s malformed: %s" % (stats.get("_oracle_error"), stats.get("_malformed")))
    for v in viol:
        if v.get("oracle_error"):
            summ["harness_errors"].append(v["what"])
            continue
        summ["violations"].append({"prop": prop, "monitor": "exact_oracle:" + v["op"], "class": v.get("class"), "section": v["sec"], "k": v["k"], "detail": {"what": v["what"], "record": v["record"]}})
    nbad = sum(v[2] for op, v in stats.items() if op in relevant)
    nclassed = 0
    for key, v in stats.items():
        if key.startswith("_class_"):
            summ["violations_by_class"][key[7:]] = summ["violations_by_class"].get(key[7:], 0) + v[2]
            nclassed += v[2]
    summ["violations_total"] += nbad
    if nbad - nclassed > 0:
        summ["violations_by_class"]["unclassified"] = summ["violations_by_class"].get("unclassified", 0) + nbad - nclassed
    return summ


if __name__ == "__main__":
    # stand-alone: python3 numoracle.py <log> <prop>
    st, viol, be, lp = judge_log(sys.argv[1], sys.argv[2], os.cpu_count() or 4)
    for op in sorted(st):
        print(op, st[op])
    print("lane pairs", lp, "bit identical", be)
    for v in viol[:10]:
        print(json.dumps(v)[:1500])
